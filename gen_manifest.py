#!/usr/bin/env python3
"""Regenerate MANIFEST.json from the metadata of the property modules in vmon/props.

Properties without a module are listed under not_applicable with the reason given in
NOT_CLAIMED below (kept current by hand).
"""
import importlib
import json
import os
import sys

here = os.path.dirname(os.path.abspath(__file__))
sys.path.insert(0, here)

NOT_CLAIMED = {}  # id -> reason, for properties that deliberately have no check

ids = [json.loads(l)["id"] for l in open(os.path.join(here, "properties.jsonl"))]
checks, not_applicable = [], []
for pid in ids:
    path = os.path.join(here, "vmon", "props", pid.lower() + ".py")
    if pid in NOT_CLAIMED or not os.path.exists(path):
        not_applicable.append({
            "property_id": pid,
            "reason": NOT_CLAIMED.get(pid, "check not built yet in this round (work in progress); not claimed until its monitor exists"),
        })
        continue
    m = importlib.import_module(f"vmon.props.{pid.lower()}")
    checks.append({
        "property_id": pid,
        "quick_cmd": f"./check {pid} quick",
        "thorough_cmd": f"./check {pid} thorough",
        "evidence_file": f"/verif/evidence/{pid}.json",
        "replay_cmd_template": f"./check {pid} --replay {{path}}",
        "engine": "vmon",
        "level_claimed": {"category": m.LEVEL, "text": m.LEVEL_TEXT, "design_ref": "DESIGN.md section " + m.DESIGN_REF},
        "level_note": m.LEVEL_NOTE,
        "technique": m.TECHNIQUE,
    })

manifest = {
    "version": 1,
    "setup_cmd": "./check --setup",
    "hooks": {
        "guard": "SIMFILE_VERIF",
        "enable": "no source hooks were needed: every observation point is reachable from the public API "
                  "(filesystem= parameter, module attributes, sys.addaudithook, sys.monitoring); ./check sets "
                  "SIMFILE_VERIF=1 for uniformity and imports /repo's working tree through PYTHONPATH",
        "baseline_off_cmd": "cd /repo && /venv/bin/python -m pytest -ra -q -p no:cacheprovider --timeout=900 --continue-on-collection-errors",
        "source_commits": [],
        "add_only": True,
    },
    "engines": [{
        "name": "vmon",
        "path": "/verif/vmon",
        "serves_properties": [c["property_id"] for c in checks],
        "kind_free_text": "runtime monitoring: seeded/enumerated workloads drive the real library; boundary "
                          "recorders, reference-model oracles, audit-hook/PyFilesystem-proxy trace checkers and "
                          "sys.monitoring failpoints decide each execution; three-valued verdicts",
    }],
    "checks": checks,
    "notes": "Exit codes: 0 held, 1 violated (VIOLATION line), 2 inconclusive, 3 harness error. Environment: "
             "VERIF_SEED, VERIF_TIER, VERIF_JOBS, VERIF_REPO (scratch tree for sensitivity runs). Known findings: "
             "/verif/known_findings.txt. Seeded breaking changes and which check catches them: /verif/seeded and DESIGN.md.",
    "not_applicable": not_applicable,
}
with open(os.path.join(here, "MANIFEST.json"), "w") as f:
    json.dump(manifest, f, indent=1)
    f.write("\n")
print(f"MANIFEST.json: {len(checks)} checks, {len(not_applicable)} not claimed")

#!/bin/bash
# tools/confirm_seed.sh <CXX> <A|B>
# Confirms a seeded change produced by a sub-agent: applies cleanly to /repo HEAD, the pinned test suite still
# passes with it (the known-flaky test_predefined_assets aside), its demo fails with it and passes without it.
# On success copies it to /verif/seeded/<CXX>-<X>/ with a confirmation record appended to meta.json.
id="$1"; x="$2"
src="/tmp/seed/out/$id/$x"
[ -f "$src/patch.diff" ] || { echo "$id-$x: no patch"; exit 2; }
wt="$(mktemp -d /tmp/vmon-seed-XXXXXX)"; rmdir "$wt"
git -C /repo worktree add -q --detach "$wt" HEAD || exit 3
trap 'git -C /repo worktree remove --force "$wt"' EXIT
cd /tmp
PYTHONPATH="$wt" /venv/bin/python -W ignore "$src/demo.py" >/dev/null 2>&1; clean=$?
git -C "$wt" apply "$src/patch.diff" || { echo "$id-$x: patch does not apply"; exit 2; }
PYTHONPATH="$wt" /venv/bin/python -W ignore "$src/demo.py" >/dev/null 2>&1; mutated=$?
tests="$(cd "$wt" && /venv/bin/python -W ignore -m pytest -q -p no:cacheprovider --deselect simfile/tests/test_assets.py::TestAssets::test_predefined_assets 2>&1 | tail -1)"
echo "$id-$x: demo clean=$clean mutated=$mutated tests: $tests"
if [ "$clean" = 0 ] && [ "$mutated" != 0 ] && echo "$tests" | grep -q passed && ! echo "$tests" | grep -q failed; then
  dst="/verif/seeded/$id-$x"; mkdir -p "$dst"
  cp "$src/patch.diff" "$src/demo.py" "$dst/"
  python3 - "$src/meta.json" "$dst/meta.json" "$tests" "$(git -C /repo rev-parse --short HEAD)" <<'PY'
import json, sys
m = json.load(open(sys.argv[1]))
m["confirmed"] = {"base_commit": sys.argv[4], "demo_exit_unchanged_tree": 0, "demo_exit_with_patch": "non-zero",
                  "test_suite_with_patch": sys.argv[3],
                  "how": "tools/confirm_seed.sh: scratch worktree of /repo HEAD, git apply, pytest (flaky test_predefined_assets deselected), demo.py with and without the patch"}
json.dump(m, open(sys.argv[2], "w"), indent=1)
PY
  echo "$id-$x: CONFIRMED -> $dst"
else
  echo "$id-$x: NOT CONFIRMED"
fi

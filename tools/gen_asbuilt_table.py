#!/usr/bin/env python3
"""Regenerate the as-built summary table of DESIGN.md section 5 from the modules and the committed evidence."""
import importlib, json, os, sys
here = os.path.dirname(os.path.dirname(os.path.abspath(__file__)))
sys.path.insert(0, here)
rows = ["| id | deciding monitors (each must make >= 1 evaluation, else inconclusive) | exhaustively enumerated sub-space | quick: evaluations / distinct non-trivial | quick wall |", "|---|---|---|---|---|"]
for i in range(1, 21):
    pid = f"C{i:02d}"
    m = importlib.import_module(f"vmon.props.c{i:02d}")
    e = json.load(open(os.path.join(here, "evidence", pid + ".json")))
    c = e["coverage"]
    rows.append(f"| {pid} | {', '.join(m.MONITORS)} | {getattr(m, 'EXHAUSTIVE_PART', '—')} | {c['evaluations']} / {c['distinct_nontrivial']} | {e['wall_s']:.0f} s |")
doc = os.path.join(here, "DESIGN.md")
s = open(doc).read()
a, b = s.index("<!-- ASBUILT-BEGIN -->"), s.index("<!-- ASBUILT-END -->")
s = s[:a] + "<!-- ASBUILT-BEGIN -->\n" + "\n".join(rows) + "\n" + s[b:]
open(doc, "w").write(s)
print("ok")

#!/usr/bin/env python3
"""Regenerate the seeded-changes table of DESIGN.md from seeded/*/meta.json and seeded/RESULTS-quick.tsv."""
import csv, json, os, re
here = os.path.dirname(os.path.dirname(os.path.abspath(__file__)))
res = {}
p = os.path.join(here, "seeded", "RESULTS-quick.tsv")
if os.path.exists(p):
    for row in csv.DictReader(open(p), delimiter="\t"):
        res[row["seed"]] = row
rows = ["| change | what it breaks (author's summary, shortened) | needs, in order to manifest | quick check of its property | first monitor that fired |", "|---|---|---|---|---|"]
for d in sorted(os.listdir(os.path.join(here, "seeded"))):
    mp = os.path.join(here, "seeded", d, "meta.json")
    if not os.path.exists(mp):
        continue
    m = json.load(open(mp))
    short = lambda s, n: (re.sub(r"\s+", " ", str(s or "")).replace("|", "/")[:n] + ("…" if len(str(s or "")) > n else ""))
    r = res.get(d, {})
    verdict = {"1": "caught", "0": "MISSED"}.get(r.get("exit"), "not run")
    rows.append(f"| {d} | {short(m.get('summary'), 170)} | {short(m.get('needs_to_manifest'), 150)} | {verdict} ({r.get('violations', '?')} keys) | `{r.get('first_key', '')}` |")
doc = os.path.join(here, "DESIGN.md")
s = open(doc).read()
a, b = s.index("<!-- SEEDS-BEGIN -->"), s.index("<!-- SEEDS-END -->")
s = s[:a] + "<!-- SEEDS-BEGIN -->\n" + "\n".join(rows) + "\n" + s[b:]
open(doc, "w").write(s)
print(len(rows) - 2, "rows")

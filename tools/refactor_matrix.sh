#!/bin/bash
# tools/refactor_matrix.sh <dir-with-CXX/R*/patch.diff> [tier]
# Applies every behaviour-preserving refactoring to a scratch worktree and runs ALL checks against it:
# any alarm here is a false alarm of the machinery (or a refactoring that is not behaviour preserving).
src="${1:-/tmp/refac/out}"; tier="${2:-quick}"
out=/verif/refactorings/RESULTS-$tier.tsv
mkdir -p /verif/refactorings
printf "refactoring\tcheck\texit\tfirst_key\n" > "$out"
for d in "$src"/C*/R*/; do
  [ -f "$d/patch.diff" ] || continue
  n="$(basename "$(dirname "$d")")-$(basename "$d")"
  wt="$(mktemp -d /tmp/vmon-ref-XXXXXX)"; rmdir "$wt"
  git -C /repo worktree add -q --detach "$wt" HEAD || continue
  if ! git -C "$wt" apply "$d/patch.diff"; then echo "$n: patch does not apply"; git -C /repo worktree remove --force "$wt"; continue; fi
  ev="$(mktemp -d /tmp/vmon-ev-XXXXXX)"
  seq -w 1 20 | xargs -P 16 -I{} sh -c "VERIF_REPO=$wt VERIF_EVIDENCE_DIR=$ev /verif/check C{} $tier > $ev/C{}.log 2>&1; echo \$? > $ev/C{}.exit"
  for i in $(seq -w 1 20); do
    ex=$(cat $ev/C$i.exit); key=$(grep -m1 -E '^  key=|^INCONCLUSIVE|^HARNESS' $ev/C$i.log | cut -c1-160)
    printf "%s\tC%s\t%s\t%s\n" "$n" "$i" "$ex" "$key" >> "$out"
    [ "$ex" != 0 ] && { echo "$n C$i exit=$ex $key"; mkdir -p /tmp/vmon-ev/refac; cp $ev/C$i.log /tmp/vmon-ev/refac/$n-C$i.log; }
  done
  echo "$n done"
  git -C /repo worktree remove --force "$wt"; rm -rf "$ev"
done

#!/bin/bash
# tools/seed_cross_matrix.sh [tier] [glob] -- every seeded change against ALL 20 checks (16 at a time):
# shows which other checks also notice a change (seeded/CROSS-<tier>.tsv: one row per change, one column per check).
tier="${1:-quick}"; pat="${2:-*}"
out=/verif/seeded/CROSS-$tier.tsv
if [ "$pat" = "*" ] || [ ! -f "$out" ]; then printf "seed" > "$out"; for i in $(seq -w 1 20); do printf "\tC%s" "$i" >> "$out"; done; printf "\n" >> "$out"; fi   # a glob appends
for d in /verif/seeded/$pat/; do
  [ -f "$d/patch.diff" ] || continue
  n=$(basename "$d")
  wt="$(mktemp -d /tmp/vmon-x-XXXXXX)"; rmdir "$wt"
  git -C /repo worktree add -q --detach "$wt" HEAD || continue
  if ! git -C "$wt" apply "$d/patch.diff" 2>/dev/null; then echo "$n: patch does not apply"; git -C /repo worktree remove --force "$wt"; continue; fi
  ev="$(mktemp -d /tmp/vmon-ev-XXXXXX)"
  seq -w 1 20 | xargs -P ${XJOBS:-12} -I{} sh -c "VERIF_REPO=$wt VERIF_EVIDENCE_DIR=$ev /verif/check C{} $tier > $ev/C{}.log 2>&1; echo \$? > $ev/C{}.exit"
  printf "%s" "$n" >> "$out"
  for i in $(seq -w 1 20); do printf "\t%s" "$(cat $ev/C$i.exit)" >> "$out"; done; printf "\n" >> "$out"
  echo "$n $(for i in $(seq -w 1 20); do [ "$(cat $ev/C$i.exit)" != 0 ] && printf "C$i=%s " "$(cat $ev/C$i.exit)"; done)"
  git -C /repo worktree remove --force "$wt"; rm -rf "$ev"
done

#!/bin/bash
# tools/seed_matrix.sh [tier] [glob]  -- runs seeded changes (default: all) against the check of their own property
tier="${1:-quick}"; pat="${2:-*}"
out=/verif/seeded/RESULTS-$tier.tsv
[ -f "$out" ] || printf "seed\tproperty\ttier\texit\tviolations\tfirst_key\n" > "$out"
for d in /verif/seeded/$pat/; do
  n=$(basename "$d"); id=${n%-*}
  line=$(/verif/tools/try_patch.sh "$d/patch.diff" "$tier" "$id" 2>&1 | grep "^== ")
  ex=$(echo "$line" | sed -n 's/.*exit=\([0-9]*\).*/\1/p'); nv=$(echo "$line" | sed -n 's/.*exit=[0-9]* \([0-9]*\) violation.*/\1/p')
  key=$(echo "$line" | sed -n 's/.*key=\([^ ]*\).*/\1/p')
  grep -v "^$n	" "$out" > "$out.tmp"; mv "$out.tmp" "$out"
  printf "%s\t%s\t%s\t%s\t%s\t%s\n" "$n" "$id" "$tier" "$ex" "$nv" "$key" >> "$out"
  echo "$n exit=$ex violations=$nv $key"
done

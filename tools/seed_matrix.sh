#!/bin/bash
# tools/seed_matrix.sh [tier]  -- runs every seeded change against the check of its own property; writes seeded/RESULTS.tsv
tier="${1:-quick}"
out=/verif/seeded/RESULTS.tsv
printf "seed\tproperty\ttier\texit\tviolations\tfirst_key\n" > "$out"
for d in /verif/seeded/*/; do
  n=$(basename "$d"); id=${n%-*}
  line=$(/verif/tools/try_patch.sh "$d/patch.diff" "$tier" "$id" 2>&1 | grep "^== ")
  ex=$(echo "$line" | sed -n 's/.*exit=\([0-9]*\).*/\1/p'); nv=$(echo "$line" | sed -n 's/.*exit=[0-9]* \([0-9]*\) violation.*/\1/p')
  key=$(echo "$line" | sed -n 's/.*key=\([^ ]*\).*/\1/p')
  printf "%s\t%s\t%s\t%s\t%s\t%s\n" "$n" "$id" "$tier" "$ex" "$nv" "$key" >> "$out"
done
cat "$out"

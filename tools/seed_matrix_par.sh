#!/bin/bash
# tools/seed_matrix_par.sh [tier] [jobs]  -- like seed_matrix.sh for all seeded changes, <jobs> at a time; rewrites seeded/RESULTS-<tier>.tsv
tier="${1:-quick}"; jobs="${2:-8}"
tmp="$(mktemp -d /tmp/vmon-sm-XXXXXX)"
one() {
  d="$1"; tier="$2"; tmp="$3"
  n=$(basename "$d"); id=${n%-*}
  line=$(/verif/tools/try_patch.sh "$d/patch.diff" "$tier" "$id" 2>&1 | grep "^== ")
  ex=$(echo "$line" | sed -n 's/.*exit=\([0-9]*\).*/\1/p'); nv=$(echo "$line" | sed -n 's/.*exit=[0-9]* \([0-9]*\) violation.*/\1/p')
  key=$(echo "$line" | sed -n 's/.*key=\([^ ]*\).*/\1/p')
  printf "%s\t%s\t%s\t%s\t%s\t%s\n" "$n" "$id" "$tier" "$ex" "$nv" "$key" > "$tmp/$n.row"
  echo "$n exit=$ex $key"
}
export -f one
ls -d /verif/seeded/*/ | xargs -P "$jobs" -I{} bash -c 'one "$@"' _ {} "$tier" "$tmp"
out=/verif/seeded/RESULTS-$tier.tsv
printf "seed\tproperty\ttier\texit\tviolations\tfirst_key\n" > "$out"
cat "$tmp"/*.row | sort >> "$out"
rm -rf "$tmp"
awk -F'\t' 'NR>1 && $4!=1' "$out"
wc -l "$out"

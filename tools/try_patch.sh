#!/bin/bash
# tools/try_patch.sh <patch.diff> <tier> <ID> [<ID>...]
# Applies a patch to a scratch worktree of /repo's HEAD and runs the named checks against it
# (VERIF_REPO), with evidence redirected to a scratch directory. Removes the worktree afterwards.
patch="$1"; tier="$2"; shift 2
wt="$(mktemp -d /tmp/vmon-mut-XXXXXX)"
rmdir "$wt"
git -C /repo worktree add -q --detach "$wt" HEAD || exit 3
ev="$(mktemp -d /tmp/vmon-ev-XXXXXX)"
trap 'git -C /repo worktree remove --force "$wt"; rm -rf "$ev"' EXIT
if ! git -C "$wt" apply "$patch"; then echo "PATCH-DOES-NOT-APPLY $patch"; exit 3; fi
rc=0
for id in "$@"; do
  VERIF_REPO="$wt" VERIF_EVIDENCE_DIR="$ev" "$(dirname "$0")/../check" "$id" "$tier" > "$ev/$id.log" 2>&1
  r=$?
  echo "== $id exit=$r $(grep -c '^VIOLATION' "$ev/$id.log") violation lines; $(grep -m1 -E '^  key=' "$ev/$id.log" | cut -c1-220)"
  [ $r -ne 0 ] && rc=1
done
exit $rc

"""
vmon.core -- driver, verdicts, evidence and replay files for the runtime monitors.

Every property module in vmon.props exposes

    LEVEL        "exploration" | "fault_enumeration"
    RULE         text: how cases are generated / what makes one non-trivial
    ASSUMPTIONS  list of strings (trusted base)
    REQUIRED     feature buckets that must be observed at least once (else inconclusive)
    anchors()    -> {name: function}   functions whose executed lines are reported
    cases(ctx)   -> iterator of JSON-able case dicts (deterministic in ctx.rng)
    check(ctx, case)                   run the real code under the monitors, decide the case
    PROBES       optional {key: (callable(ctx) -> str|None, text)}  known-finding probes

A case is always a JSON-able dict, so a replay file is just the case and
`./check <ID> --replay <file>` is `check(ctx, case)` on it.
"""
import array
import hashlib
import json
import os
import random
import sys
import time
import traceback
from collections import Counter

VERIF = os.path.dirname(os.path.dirname(os.path.abspath(__file__)))
REPO = os.path.realpath(os.environ.get("VERIF_REPO") or "/repo")
REPLAYS = os.path.join(VERIF, "replays")
EVIDENCE = os.environ.get("VERIF_EVIDENCE_DIR") or os.path.join(VERIF, "evidence")
KNOWN_FINDINGS = os.path.join(VERIF, "known_findings.txt")

MAX_VIOLATIONS = 20
MAX_SAMPLES = 6


class Inconclusive(Exception):
    pass


class AbortCase(Exception):
    """Raised by a check after it has recorded a violation that makes the rest of the case meaningless."""


def api_call(ctx, label, fn, *args, **kwargs):
    """Call a public library function in one of its documented call forms (keyword names, positional order).
    A TypeError raised by the call itself -- the arguments did not bind -- is a violation, not a harness error."""
    try:
        return fn(*args, **kwargs)
    except TypeError as e:
        tb = e.__traceback__
        if tb is not None and tb.tb_next is None:
            ctx.violation(f"api:{label}:documented-call-form-rejected", {"exception": repr(e), "kwargs": sorted(kwargs), "n_positional": len(args)})
            raise AbortCase() from e
        raise


def assert_repo_import():
    import simfile

    path = os.path.realpath(simfile.__file__)
    if not path.startswith(REPO + os.sep):
        raise Inconclusive(f"simfile imported from {path}, not from {REPO}")
    return path


def jdump(obj):
    return json.dumps(obj, sort_keys=True, ensure_ascii=True, default=repr)


def digest64(obj) -> int:
    h = hashlib.sha1(jdump(obj).encode("ascii")).digest()
    return int.from_bytes(h[:8], "big")


def clip(obj, limit=600):
    """Shorten long strings inside a sample so evidence files stay readable."""
    if isinstance(obj, str):
        return obj if len(obj) <= limit else obj[:limit] + f"...(+{len(obj) - limit} chars)"
    if isinstance(obj, dict):
        return {k: clip(v, limit) for k, v in obj.items()}
    if isinstance(obj, (list, tuple)):
        if len(obj) > 60:
            return [clip(v, limit) for v in obj[:60]] + [f"...(+{len(obj) - 60} items)"]
        return [clip(v, limit) for v in obj]
    return obj


class Ctx:
    def __init__(self, pid, tier, seed, shard=0, nshards=1, replaying=False):
        self.pid = pid
        self.tier = tier
        self.seed = seed
        self.shard = shard
        self.nshards = nshards
        self.replaying = replaying
        self.rng = random.Random(f"{pid}:{tier}:{seed}:{shard}/{nshards}")
        self.features = Counter()
        self.outcomes = Counter()
        self.skipped = Counter()
        self.monitors = Counter()  # evaluations per deciding monitor
        self.evaluations = 0
        self.digests = set()
        self.samples = []
        self.violations = []
        self._violation_keys = set()
        self.known_reported = []
        self.notes = {}
        self.exhaustive = False
        self.t0 = time.time()
        self.case = None
        self._sample_every = 1
        self._fallback_sample = None
        self._begins = 0
        self._explicit = 0
        self._kinds = set()

    # -- per case -----------------------------------------------------------
    def begin(self, case, nontrivial=True, sample=None):
        """Register one executed case. `nontrivial` per the module's RULE."""
        self.case = case
        self.evaluations += 1
        if self._fallback_sample is None:
            self._fallback_sample = clip(sample if sample is not None else case)
        if nontrivial:
            self.digests.add(digest64(case))
        if len(self.samples) < MAX_SAMPLES - 2 and nontrivial:
            # one sample per kind of case first, then a thinning series
            self._begins += 1
            n = self._begins
            kind = case.get("kind") if isinstance(case, dict) else None
            fresh_kind = kind is not None and kind not in self._kinds
            if fresh_kind or (n >= self._sample_every and (kind is None or len(self.samples) < 2)):
                self._kinds.add(kind)
                self._sample_every = max(n * 5, 2)
                self.samples.append(clip(sample if sample is not None else case))

    def add_sample(self, obj):
        """An explicitly chosen sample (members of enumerated blocks are not registered one by one)."""
        if self._explicit < 2 and len(self.samples) < MAX_SAMPLES:
            self._explicit += 1
            self.samples.append(clip(obj))

    def feat(self, name, n=1):
        self.features[name] += n

    def outcome(self, name):
        self.outcomes[name] += 1

    def skip(self, reason):
        self.skipped[reason] += 1

    def mon(self, name, n=1):
        self.monitors[name] += n

    def split(self, n):
        """This shard's share of n cases."""
        base, extra = divmod(n, self.nshards)
        return base + (1 if self.shard < extra else 0)

    def mine(self, index):
        """True if enumerated item `index` belongs to this shard."""
        return index % self.nshards == self.shard

    # -- verdicts -----------------------------------------------------------
    def violation(self, key, detail, case=None):
        """Record a violation. `key` names the mechanism (monitor + clause)."""
        case = self.case if case is None else case
        if key in self._violation_keys or len(self.violations) >= MAX_VIOLATIONS:
            self.features["violations_suppressed_duplicates"] += 1
            return
        self._violation_keys.add(key)
        os.makedirs(REPLAYS, exist_ok=True)
        name = f"{self.pid}-{hashlib.sha1((key + jdump(case)).encode()).hexdigest()[:12]}.json"
        path = os.path.join(REPLAYS, name)
        record = {
            "property": self.pid,
            "key": key,
            "tier": self.tier,
            "seed": self.seed,
            "shard": f"{self.shard}/{self.nshards}",
            "repo": REPO,
            "case": case,
            "detail": detail,
        }
        with open(path, "w") as f:
            f.write(json.dumps(record, indent=1, ensure_ascii=True, default=repr))
        self.violations.append({"key": key, "replay": path, "detail": clip(detail, 300)})
        print(f"VIOLATION property={self.pid} replay={path}", flush=True)
        print(f"  key={key} detail={jdump(clip(detail, 300))[:900]}", flush=True)

    def expect(self, cond, key, **detail):
        if not cond:
            self.violation(key, detail)
        return bool(cond)

    def elapsed(self):
        return time.time() - self.t0

    # -- serialisation for shards ------------------------------------------
    def to_shard(self, anchor_lines):
        return {
            "features": dict(self.features),
            "outcomes": dict(self.outcomes),
            "skipped": dict(self.skipped),
            "monitors": dict(self.monitors),
            "evaluations": self.evaluations,
            "samples": self.samples or ([self._fallback_sample] if self._fallback_sample is not None else []),
            "violations": self.violations,
            "notes": self.notes,
            "exhaustive": self.exhaustive,
            "anchor_lines": anchor_lines,
            "wall_s": self.elapsed(),
        }


# ---------------------------------------------------------------------------
# anchor-line coverage through sys.monitoring (3.12+)


class AnchorCoverage:
    TOOL = 3

    def __init__(self, funcs):
        self.codes = {}
        for name, fn in (funcs or {}).items():
            code = _code_of(fn)
            if code is None:
                continue
            for c in _walk_code(code):
                self.codes[c] = name
        self.hits = {c: set() for c in self.codes}
        self.active = False

    def start(self):
        mon = getattr(sys, "monitoring", None)
        if mon is None or not self.codes:
            return
        try:
            mon.use_tool_id(self.TOOL, "vmon-anchor-coverage")
        except ValueError:
            return
        mon.register_callback(self.TOOL, mon.events.LINE, self._line)
        for c in self.codes:
            mon.set_local_events(self.TOOL, c, mon.events.LINE)
        self.active = True

    def _line(self, code, line):
        h = self.hits.get(code)
        if h is not None:
            h.add(line)
        return sys.monitoring.DISABLE

    def stop(self):
        if not self.active:
            return
        mon = sys.monitoring
        for c in self.codes:
            mon.set_local_events(self.TOOL, c, 0)
        mon.register_callback(self.TOOL, mon.events.LINE, None)
        mon.free_tool_id(self.TOOL)
        self.active = False

    def report(self):
        out = {}
        for c, name in self.codes.items():
            lines = {l for (_, _, l) in c.co_lines() if l is not None and l != c.co_firstlineno}
            # the `def` line itself only fires for generators/classes; ignore it
            r = out.setdefault(name, {"executed": set(), "total": set()})
            r["executed"] |= self.hits[c] & lines
            r["total"] |= lines
        return {
            k: {"executed": sorted(v["executed"]), "total": len(v["total"]),
                "missed": sorted(v["total"] - v["executed"])}
            for k, v in out.items()
        }


def pick(*specs):
    """Resolve 'module:dotted.attr' strings to objects; anchors that no longer exist are simply left out.

    Anchor coverage is a diagnostic, never a verdict: a refactoring that renames a private helper must not
    break a check, so nothing here may raise.
    """
    import importlib

    out = {}
    for spec in specs:
        mod, _, path = spec.partition(":")
        try:
            obj = importlib.import_module(mod)
            for part in path.split("."):
                obj = obj.__dict__[part] if isinstance(obj, type) and part in obj.__dict__ else getattr(obj, part)
            out[path] = obj
        except Exception:
            continue
    return out


def module_codes(*modules):
    """Every code object defined in the given modules (functions, methods, nested code): failpoint targets."""
    import importlib
    import types

    codes = []
    for name in modules:
        try:
            m = importlib.import_module(name)
        except Exception:
            continue
        seen = set()

        def visit(obj):
            if id(obj) in seen:
                return
            seen.add(id(obj))
            obj = getattr(obj, "__wrapped__", obj)
            if isinstance(obj, (staticmethod, classmethod)):
                obj = obj.__func__
            if isinstance(obj, property):
                for f in (obj.fget, obj.fset, obj.fdel):
                    if f is not None:
                        visit(f)
                return
            if isinstance(obj, types.FunctionType):
                if obj.__code__.co_filename == getattr(m, "__file__", None):
                    codes.extend(_walk_code(obj.__code__))
            elif isinstance(obj, type) and getattr(obj, "__module__", None) == m.__name__:
                for v in list(vars(obj).values()):
                    visit(v)

        for v in list(vars(m).values()):
            visit(v)
    return codes


def _code_of(fn):
    fn = getattr(fn, "__wrapped__", fn)
    if isinstance(fn, property):
        fn = fn.fget
    if isinstance(fn, (classmethod, staticmethod)):
        fn = fn.__func__
    fn = getattr(fn, "__func__", fn)
    return getattr(fn, "__code__", None)


def _walk_code(code):
    yield code
    for const in code.co_consts:
        if hasattr(const, "co_code"):
            yield from _walk_code(const)


def merge_anchor(reports):
    out = {}
    for rep in reports:
        for name, r in (rep or {}).items():
            o = out.setdefault(name, {"executed": set(), "total": r["total"], "all": None})
            o["executed"] |= set(r["executed"])
            lines = set(r["executed"]) | set(r["missed"])
            o["all"] = lines if o["all"] is None else (o["all"] | lines)
    return {
        k: {"executed": len(v["executed"]), "total": v["total"],
            "missed": sorted((v["all"] or set()) - v["executed"])}
        for k, v in out.items()
    }


# ---------------------------------------------------------------------------
# known findings


def load_known_findings(pid):
    """-> (open: {key: text}, fixed: [text])"""
    open_, fixed = {}, []
    if not os.path.exists(KNOWN_FINDINGS):
        return open_, fixed
    for line in open(KNOWN_FINDINGS, encoding="utf-8"):
        line = line.strip()
        if not line or line.startswith("#"):
            continue
        if f"property={pid} " not in line + " ":
            continue
        if line.startswith("KNOWN-FINDING:"):
            key = None
            for tok in line.split():
                if tok.startswith("key="):
                    key = tok[4:]
            if key:
                open_[key] = line
        elif line.startswith("fixed:"):
            fixed.append(line)
    return open_, fixed


def run_probes(ctx, mod):
    """Deterministic probes for open known findings.

    A probe returns a description string while the finding still reproduces,
    None when the input now behaves.  A reproducing finding that is listed in
    known_findings.txt prints its KNOWN-FINDING line; one that is not listed is
    an ordinary violation.
    """
    probes = getattr(mod, "PROBES", None) or {}
    open_, _fixed = load_known_findings(ctx.pid)
    for key, (fn, text) in probes.items():
        try:
            got = fn(ctx)
        except Exception as e:  # a probe must never take the run down
            got = f"probe raised {type(e).__name__}: {e}"
        ctx.mon("known_finding_probes")
        if got is None:
            ctx.notes.setdefault("known_findings_not_reproducing", []).append(key)
            continue
        if key in open_:
            line = f"KNOWN-FINDING: property={ctx.pid} key={key} {text} [{got}]"
            print(line, flush=True)
            ctx.known_reported.append(line)
        else:
            ctx.violation(f"unlisted-finding:{key}", {"probe": text, "observed": got},
                          case={"probe": key})


# ---------------------------------------------------------------------------
# running one shard


def harness_frame(tb):
    """True if the innermost frame of the traceback is harness code (vmon)."""
    last = traceback.extract_tb(tb)[-1]
    return os.path.realpath(last.filename).startswith(os.path.join(VERIF, "vmon"))


def run_shard(mod, ctx, replay_case=None):
    try:
        anchor_funcs = mod.anchors() if hasattr(mod, "anchors") else {}
    except Exception:
        anchor_funcs = {}
    cov = AnchorCoverage(anchor_funcs)
    cov.start()
    status = "ok"
    reason = ""
    budget = float(os.environ.get("VERIF_WATCHDOG_S") or (900 if ctx.tier == "quick" else 7200))
    try:
        if replay_case is not None:
            ctx.begin(replay_case)
            try:
                mod.check(ctx, replay_case)
            except AbortCase:
                pass
        else:
            if ctx.shard == 0:
                run_probes(ctx, mod)
            for case in mod.cases(ctx):
                try:
                    mod.check(ctx, case)
                except Inconclusive:
                    raise
                except AbortCase:
                    pass
                except Exception as e:
                    tb = e.__traceback__
                    if harness_frame(tb):
                        raise
                    # the library raised something no oracle expected
                    last = traceback.extract_tb(tb)[-1]
                    ctx.violation(
                        f"unexpected-exception:{type(e).__name__}:{os.path.basename(last.filename)}:{last.name}",
                        {"exception": repr(e), "traceback": traceback.format_exc()[-1500:]},
                        case=case,
                    )
                if ctx.elapsed() > budget:
                    status, reason = "inconclusive", f"watchdog {budget}s fired after {ctx.evaluations} cases"
                    break
            if hasattr(mod, "finish"):
                mod.finish(ctx)
    except Inconclusive as e:
        status, reason = "inconclusive", str(e)
    except Exception:
        status, reason = "harness-error", traceback.format_exc()[-2000:]
    finally:
        cov.stop()
    out = ctx.to_shard(cov.report())
    out["status"] = status
    out["reason"] = reason
    out["known"] = ctx.known_reported
    return out, array.array("Q", sorted(ctx.digests))

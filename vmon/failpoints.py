"""Source-free failpoints: sys.monitoring LINE events on chosen code objects (DESIGN 4.7)."""
import sys

from .fsmon import InjectedFault


class LineFailpoints:
    TOOL = 4

    def __init__(self, codes, fail_at=None):
        self.codes = list(codes)
        self.fail_at = fail_at
        self.events = []
        self.armed = False

    def arm(self):
        mon = sys.monitoring
        mon.use_tool_id(self.TOOL, "vmon-failpoints")
        mon.register_callback(self.TOOL, mon.events.LINE, self._line)
        for c in self.codes:
            mon.set_local_events(self.TOOL, c, mon.events.LINE)
        self.armed = True

    def _line(self, code, line):
        k = len(self.events)
        self.events.append((code.co_name, line))
        if self.fail_at is not None and k == self.fail_at:
            raise InjectedFault(5, f"injected fault at line event {k} ({code.co_name}:{line})")

    def disarm(self):
        if self.armed:
            mon = sys.monitoring
            for c in self.codes:
                mon.set_local_events(self.TOOL, c, 0)
            mon.register_callback(self.TOOL, mon.events.LINE, None)
            mon.free_tool_id(self.TOOL)
            self.armed = False
        return self.events

"""
Filesystem monitors (DESIGN 4.6): a process-wide audit hook, recording / fault-injecting PyFilesystem
proxies for the native filesystem and for MemoryFS, and tree snapshots.
"""
import errno
import os
import sys


# ------------------------------------------------------------------------------------------------ audit hook

class AuditMonitor:
    """One process-wide sys.addaudithook with an on/off switch and a path-prefix filter."""

    _instance = None
    WATCH = ("open", "os.remove", "os.rename", "os.mkdir", "os.rmdir", "os.truncate", "os.chmod", "os.link",
             "os.symlink", "os.utime", "shutil.copyfile", "shutil.move", "shutil.rmtree", "os.chown")

    def __init__(self):
        self.active = False
        self.prefix = None
        self.events = []
        sys.addaudithook(self._hook)

    @classmethod
    def get(cls):
        if cls._instance is None:
            cls._instance = AuditMonitor()
        return cls._instance

    def _hook(self, event, args):
        if not self.active or event not in self.WATCH:
            return
        try:
            paths = [a for a in args[:2] if isinstance(a, (str, bytes))]
            paths = [p.decode("utf-8", "replace") if isinstance(p, bytes) else p for p in paths]
            if not any(p.startswith(self.prefix) for p in paths):
                return
            if event == "open":
                mode = args[1] if len(args) > 1 else None
                flags = args[2] if len(args) > 2 else 0
                writing = bool(flags & (os.O_WRONLY | os.O_RDWR | os.O_CREAT | os.O_TRUNC | os.O_APPEND)) if isinstance(flags, int) else False
                self.events.append(("open-w" if writing else "open-r", paths[0], mode))
            else:
                self.events.append((event, *paths))
        except Exception:  # never let the monitor disturb the program
            pass

    def start(self, prefix):
        self.prefix = prefix
        self.events = []
        self.active = True

    def stop(self):
        self.active = False
        return self.events


# ------------------------------------------------------------------------------------------------ proxies

class InjectedFault(OSError):
    pass


class Recorder:
    """Shared by both proxies: ordered log of calls, optional fault at the k-th counted call."""

    def __init__(self, fail_at=None, partial=False):
        self.log = []          # (n, kind, path, info)
        self.n = 0
        self.fail_at = fail_at
        self.partial = partial
        self.fired = None
        self.enabled = True   # switched off while the harness itself sets up / snapshots the tree

    def count(self, kind, path, info=None):
        if not self.enabled:
            return False
        self.n += 1
        self.log.append((self.n, kind, path, info))
        if self.fail_at is not None and self.n == self.fail_at:
            self.fired = (self.n, kind, path)
            return True
        return False

    def fault(self, kind, path):
        raise InjectedFault(errno.EIO, f"injected fault at call {self.n} ({kind})", path)


class WriteProxy:
    """Wraps a text file opened for writing; counts write / close and can fail them."""

    def __init__(self, f, rec, path):
        self._f, self._rec, self._path = f, rec, path
        self._closed = False

    def write(self, data):
        if self._rec.count("write", self._path, len(data)):
            if self._rec.partial and len(data) > 1:
                self._f.write(data[: len(data) // 2])
                self._f.flush()
            self._rec.fault("write", self._path)
        return self._f.write(data)

    def writelines(self, lines):
        for l in lines:
            self.write(l)

    def flush(self):
        if self._rec.count("flush", self._path):
            self._rec.fault("flush", self._path)
        return self._f.flush()

    def close(self):
        if self._closed:
            return
        self._closed = True
        fail = self._rec.count("close", self._path)
        self._f.close()
        if fail:
            self._rec.fault("close", self._path)

    def __enter__(self):
        return self

    def __exit__(self, *exc):
        self.close()
        return False

    def __getattr__(self, name):
        return getattr(self._f, name)


def _writing(mode):
    return any(c in mode for c in "wax+")


def make_native(rec):
    from simfile._private.nativeosfs import NativeOSFS

    class RecordingNativeFS(NativeOSFS):
        def open(self, path, mode="r", *args, **kwargs):
            kind = "open-w" if _writing(mode) else "open-r"
            if rec.count(kind, path, {"mode": mode, "encoding": kwargs.get("encoding")}):
                rec.fault(kind, path)
            f = super().open(path, mode, *args, **kwargs)
            return WriteProxy(f, rec, path) if _writing(mode) else f

        def listdir(self, path):
            rec.enabled and rec.log.append((None, "listdir", path, None))
            return super().listdir(path)

        def isdir(self, path):
            rec.enabled and rec.log.append((None, "isdir", path, None))
            return super().isdir(path)

        def exists(self, path):
            rec.enabled and rec.log.append((None, "exists", path, None))
            return super().exists(path)

    return RecordingNativeFS()


def make_memory(rec):
    from fs.memoryfs import MemoryFS

    class RecordingMemoryFS(MemoryFS):
        def open(self, path, mode="r", *args, **kwargs):
            kind = "open-w" if _writing(mode) else "open-r"
            if rec.count(kind, path, {"mode": mode, "encoding": kwargs.get("encoding")}):
                rec.fault(kind, path)
            f = super().open(path, mode, *args, **kwargs)
            return WriteProxy(f, rec, path) if _writing(mode) else f

        def listdir(self, path):
            rec.enabled and rec.log.append((None, "listdir", path, None))
            return super().listdir(path)

        def isdir(self, path):
            rec.enabled and rec.log.append((None, "isdir", path, None))
            return super().isdir(path)

        def exists(self, path):
            rec.enabled and rec.log.append((None, "exists", path, None))
            return super().exists(path)

    return RecordingMemoryFS()


# ------------------------------------------------------------------------------------------------ snapshots

def snapshot_native(root):
    out = {}
    for d, dirs, files in os.walk(root):
        rel = os.path.relpath(d, root)
        if rel != ".":
            out[rel] = "DIR"
        for f in files:
            p = os.path.join(d, f)
            with open(p, "rb") as fh:
                out[os.path.relpath(p, root)] = fh.read()
    return out


def snapshot_memory(mfs, root="/"):
    out = {}
    for path in mfs.walk.dirs(root):
        out[path] = "DIR"
    for path in mfs.walk.files(root):
        out[path] = mfs.readbytes(path)
    return out

"""
Edit histories for SM / SSC simfiles with a shadow model (DESIGN 4.3).

An op is a JSON list.  Values are a str, None (key-only) or ["p", i] = the i-th object of the case's string pool
(the *same* Python object every time it is used: identity aliasing for C02).
"""
from ..ref import dictmodel as M
from . import values as V


# ------------------------------------------------------------------------------------------------ values


def val(x, pool):
    if isinstance(x, list):
        return pool[x[1]]
    return x


def make_pool(case):
    # fresh objects: "".join defeats constant folding / interning for longer strings
    return ["".join(list(s)) for s in case.get("pool", [])]


# ------------------------------------------------------------------------------------------------ start objects


def start_real(kind, start):
    import os
    import simfile
    from simfile.sm import SMSimfile
    from simfile.ssc import SSCSimfile
    from ..core import REPO

    cls = SMSimfile if kind == "sm" else SSCSimfile
    if start == "blank":
        return cls.blank()
    if start == "empty":
        return cls(string="")
    path = os.path.join(REPO, "testdata", start)
    with open(path, encoding="utf-8") as f:
        return cls(file=f)


def model_of(real, kind):
    """Initial shadow model read off the start object (only used for start objects)."""
    charts = []
    for c in real.charts:
        if kind == "sm":
            charts.append(M.SMChartModel([c[k] for k in M.SIX], c.extradata))
        else:
            charts.append(M.SSCChartModel(list(dict.items(c))))
    return M.SimfileModel(kind, list(dict.items(real)), charts)


STARTS = {"sm": ["blank", "empty", "blank", "empty", "nekonabe/nekonabe.sm", "blank/blank.sm"],
          "ssc": ["blank", "empty", "blank", "empty", "Springtime/Springtime.ssc", "blank/blank.ssc", "L9/L9.ssc"]}


# ------------------------------------------------------------------------------------------------ generation


class HistoryGen:
    def __init__(self, rng, kind, model, tag, pool=None, identity=False):
        self.rng, self.kind, self.m, self.tag = rng, kind, model, tag
        self.pool = pool if pool is not None else []
        self.identity = identity
        self.n = 0
        self.ops = []

    # -- values
    def value(self, key=None, none_ok=True):
        rng = self.rng
        self.n += 1
        if none_ok and key not in M.MULTI and rng.random() < 0.06:
            return None
        if self.identity and self.pool and rng.random() < 0.25:
            return ["p", rng.randrange(len(self.pool))]
        v = V.rvalue(rng, tag=f"{self.tag}.{self.n}", allow_cr=True)
        if key in M.MULTI and rng.random() < 0.6:
            v = rng.choice(["a:b", "1:2:3", "TIME=1.0:END=2.0:MODS=x", ":", "x:", ":y", "120:240"]) + v
        return v

    def field(self):
        return V.rvalue(self.rng, tag=f"{self.tag}.{self.n}", allow_cr=True).strip()

    def key(self):
        avoid = ("NOTES", "NOTEDATA") if self.kind == "sm" else ("NOTEDATA",)
        return V.rkey(self.rng, avoid=avoid)

    def pv(self, x):
        return self.pool[x[1]] if isinstance(x, list) else x

    # -- chart specs
    def sm_chart_spec(self):
        rng = self.rng
        f = [self.field() for _ in range(6)]
        if rng.random() < 0.5:
            f[5] = rng.choice(["0000\n0000\n0000\n0000", "0001\n0010\n,\n1000\n0000", "", "1"])
        if rng.random() < 0.5:
            f[0] = rng.choice(["dance-single", "dance-double", "pump-single"])
        if rng.random() < 0.02:
            f[5] = V.long_notes(rng)   # a marathon chart (beyond 65536 characters) with mixed line separators
        x = None
        if rng.random() < 0.3:
            x = [V.rvalue(rng, allow_cr=True, long_ok=rng.random() < 0.3) for _ in range(rng.randint(0, 3))]
        via = rng.choice(["from_msd", "blank", "from_str", "ctor"])
        if via == "from_str" and any(":" in c for c in f + (x or [])):
            via = "from_msd"
        if via == "blank" and x == []:
            pass
        spec = {"f": f, "x": x, "via": via}
        if via == "ctor":
            spec["order"] = rng.sample(range(6), 6)  # SMChart() with the six fields assigned in this order
        return spec

    def ssc_chart_spec(self):
        rng = self.rng
        n = rng.choice([0, 1, 3, 6, 10])
        items = []
        keys = set()
        if rng.random() < 0.01:
            # a chart with some three hundred properties (its note data far down the mapping)
            for j in range(rng.choice([258, 300])):
                items.append(["P%d" % j, "v%d" % j])
                keys.add("P%d" % j)
        base = ["CHARTNAME", "STEPSTYPE", "DESCRIPTION", "CHARTSTYLE", "DIFFICULTY", "METER", "RADARVALUES", "CREDIT",
                "BPMS", "OFFSET", "DISPLAYBPM", "ATTACKS", "MUSIC", "LABELS", "NOTES3", "NOTESAUTHOR", "XNOTES", "NOTE", "NOTEDATA2"]
        for _ in range(n):
            k = rng.choice(base) if rng.random() < 0.6 else self.key()
            if k in keys or k in ("NOTES", "NOTES2"):
                continue
            keys.add(k)
            items.append([k, self.value(k)])
        nk = rng.choice(["NOTES", "NOTES", "NOTES", "NOTES2"])
        nv = self.value(nk)
        if rng.random() < 0.5:
            nv = rng.choice(["", "0", "1", "0000\n0000\n0000\n0000\n", "\n0000\n0001\n"])
            if self.identity and self.pool and rng.random() < 0.5:
                nv = ["p", rng.randrange(len(self.pool))]
        elif rng.random() < 0.04:
            nv = V.long_notes(rng)
        items.insert(rng.randint(0, len(items)), [nk, nv])
        return {"items": items}

    def chart_model(self, spec):
        if self.kind == "sm":
            return M.SMChartModel(spec["f"], spec["x"])
        return M.SSCChartModel([(k, self.pv(v)) for k, v in spec["items"]])

    # -- one random op, applied to the model
    def step(self):
        rng, m = self.rng, self.m
        r = rng.random()
        keys = list(m.d.keys())
        op = None
        if rng.random() < 0.006:
            # a simfile with dozens of charts (32-70 more, small ones)
            for j in range(rng.choice([32, 33, 40, 64, 70])):
                if self.kind == "sm":
                    spec = {"f": ["dance-single", f"c{j}", "Hard", str(j), "0,0", "0000\n0000\n0000\n0000"], "x": None, "via": "from_msd"}
                else:
                    spec = {"items": [["STEPSTYPE", "dance-single"], ["METER", str(j)], ["NOTES", "0000\n0000\n0000\n0000\n"]]}
                many = ["c_append", spec]
                apply_model(self.m, many, self.pool, self.kind)
                self.ops.append(many)
        if rng.random() < 0.04:
            # a key that is almost, but not, one of the keywords the loaders look for -- set, then moved to the front
            k = rng.choice(V.NEAR_MISS_KEYS)
            first = ["set", k, self.value(k)]
            apply_model(self.m, first, self.pool, self.kind)
            self.ops.append(first)
            op = ["move", k, False] if rng.random() < 0.7 else ["str"]
        elif r < 0.30:
            k = rng.choice(keys) if keys and rng.random() < 0.3 else self.key()
            op = ["set", k, self.value(k)]
        elif r < 0.36 and keys:
            op = ["del", rng.choice(keys)]
        elif r < 0.44:
            a = rng.choice(M.ATTRS[self.kind])
            op = ["setattr", a, self.value(a.upper())]
        elif r < 0.47:
            cands = [a for a in M.ATTRS[self.kind] if m.key_for(a) in m.d]
            if cands:
                op = ["delattr", rng.choice(cands)]
        elif r < 0.50 and keys:
            op = ["move", rng.choice(keys), rng.random() < 0.5]
        elif r < 0.53 and keys:
            k = rng.choice(keys)
            op = ["reinsert", k]
        elif r < 0.57:
            op = ["str"]
        elif r < 0.59 and keys:
            op = ["pop", rng.choice(keys)]
        elif r < 0.61:
            k1, k2 = self.key(), self.key()
            op = ["update", [[k1, self.value(k1)], [k2, self.value(k2)]]]
        elif r < 0.70:
            spec = self.sm_chart_spec() if self.kind == "sm" else self.ssc_chart_spec()
            op = ["c_append", spec] if rng.random() < 0.6 or not m.charts else ["c_insert", rng.randint(0, len(m.charts)), spec]
        elif r < 0.74 and m.charts:
            op = [rng.choice(["c_pop", "c_del", "c_remove"]), rng.randrange(len(m.charts))]
        elif r < 0.76 and m.charts:
            op = ["c_reverse"]
        elif r < 0.78:
            n = rng.randint(0, 3)
            op = ["c_assign", [self.sm_chart_spec() if self.kind == "sm" else self.ssc_chart_spec() for _ in range(n)]]
        elif r < 0.81 and m.charts:
            op = ["c_replace", rng.randrange(len(m.charts)), self.sm_chart_spec() if self.kind == "sm" else self.ssc_chart_spec()]
        elif r < 0.83 and len(m.charts) >= 2:
            i, j = sorted(rng.sample(range(len(m.charts)), 2))
            op = ["c_swap", i, j]
        elif r < 0.85 and m.charts and self.kind == "sm":
            i = rng.randrange(len(m.charts))
            spec = {"f": m.charts[i].six(), "x": [V.rvalue(rng, allow_cr=True, long_ok=False) + "twin"], "via": "from_msd"}
            op = ["c_append", spec]  # a twin of chart i that differs only in its extra components
        elif m.charts:
            i = rng.randrange(len(m.charts))
            c = m.charts[i]
            if self.kind == "sm":
                q = rng.random()
                if q < 0.4:
                    op = ["cs_attr", i, rng.choice(M.SMCHART_ATTRS), self.field()]
                elif q < 0.7:
                    op = ["cs_key", i, rng.choice(M.SIX), self.field()]
                elif q < 0.8:
                    op = ["cs_move", i, rng.choice(M.SIX), rng.random() < 0.5]
                else:
                    x = None if rng.random() < 0.3 else [V.rvalue(rng, allow_cr=True, long_ok=False) for _ in range(rng.randint(0, 3))]
                    op = ["cs_extra", i, x]
            else:
                q = rng.random()
                ck = list(c.d.keys())
                nk = c.notes_key()
                if q < 0.35:
                    k = rng.choice(ck) if ck and rng.random() < 0.4 else self.key()
                    if k in ("NOTES", "NOTES2") and k != nk:
                        k = nk
                    op = ["cc_set", i, k, self.value(k)]
                elif q < 0.5:
                    cands = [k for k in ck if k != nk]
                    if cands:
                        op = ["cc_del", i, rng.choice(cands)]
                elif q < 0.75:
                    a = rng.choice(M.SSCCHART_ATTRS)
                    op = ["cc_setattr", i, a, self.value(a.upper())]
                elif q < 0.85:
                    cands = [a for a in M.SSCCHART_ATTRS if a != "notes" and c.key_for(a) in c.d]
                    if cands:
                        op = ["cc_delattr", i, rng.choice(cands)]
                elif q < 0.93 and ck:
                    op = ["cc_move", i, rng.choice(ck), rng.random() < 0.5]
                elif nk in c.d and ("NOTES2" if nk == "NOTES" else "NOTES") not in c.d:
                    op = ["cc_swapnotes", i]
        if op is None:
            op = ["str"]
        apply_model(self.m, op, self.pool, self.kind)
        self.ops.append(op)

    def finalize(self):
        """Append ops that move every parameter of the final state out of the msdparser gaps; -> n repaired."""
        m = self.m
        n = 0
        for k, v in list(m.d.items()):
            comps = M.param_components(k, v)
            if V.in_gap(comps):
                n += 1
                fixed = V.repair(comps)
                nv = None if v is None else (":".join(fixed[1:]) if k in M.MULTI else fixed[1])
                op = ["set", k, nv]
                apply_model(m, op, self.pool, self.kind)
                self.ops.append(op)
        for i, c in enumerate(m.charts):
            if self.kind == "sm":
                comps = M.smchart_components(c.six(), c.extra)
                if V.in_gap(comps):
                    n += 1
                    fixed = V.repair(comps)
                    six = [fixed[j + 1][6:] for j in range(5)] + [fixed[6][1:-1]]
                    extra = list(fixed[7:]) if c.extra is not None else None
                    for key, fv in zip(M.SIX, six):
                        if c.f[key] != fv:
                            op = ["cs_key", i, key, fv]
                            apply_model(m, op, self.pool, self.kind)
                            self.ops.append(op)
                    if extra != c.extra:
                        op = ["cs_extra", i, extra]
                        apply_model(m, op, self.pool, self.kind)
                        self.ops.append(op)
            else:
                for k, v in list(c.d.items()):
                    comps = M.param_components(k, v)
                    if V.in_gap(comps):
                        n += 1
                        fixed = V.repair(comps)
                        nv = None if v is None else (":".join(fixed[1:]) if k in M.MULTI else fixed[1])
                        op = ["cc_set", i, k, nv]
                        apply_model(m, op, self.pool, self.kind)
                        self.ops.append(op)
        return n


# ------------------------------------------------------------------------------------------------ application


def chart_model_from_spec(spec, pool, kind):
    if kind == "sm":
        return M.SMChartModel(spec["f"], spec["x"])
    return M.SSCChartModel([(k, val(v, pool)) for k, v in spec["items"]])


def apply_model(m, op, pool, kind):
    o = op[0]
    if o == "set":
        m.d[op[1]] = val(op[2], pool)
    elif o == "del":
        del m.d[op[1]]
    elif o == "setattr":
        m.setattr(op[1], val(op[2], pool))
    elif o == "delattr":
        m.delattr(op[1])
    elif o == "move":
        m.d.move_to_end(op[1], last=op[2])
    elif o == "reinsert":
        m.d[op[1]] = m.d[op[1]]
    elif o == "str":
        pass
    elif o == "pop":
        m.d.pop(op[1])
    elif o == "update":
        for k, v in op[1]:
            m.d[k] = val(v, pool)
    elif o == "c_append":
        m.charts.append(chart_model_from_spec(op[1], pool, kind))
    elif o == "c_insert":
        m.charts.insert(op[1], chart_model_from_spec(op[2], pool, kind))
    elif o in ("c_pop", "c_del"):
        m.charts.pop(op[1])
    elif o == "c_remove":
        target = m.charts[op[1]]
        for j, c in enumerate(m.charts):
            if c.eq(target):
                m.charts.pop(j)
                break
    elif o == "c_reverse":
        m.charts.reverse()
    elif o == "c_assign":
        m.charts = [chart_model_from_spec(s, pool, kind) for s in op[1]]
    elif o == "c_replace":
        m.charts[op[1]] = chart_model_from_spec(op[2], pool, kind)
    elif o == "c_swap":
        i, j = op[1], op[2]
        m.charts[i], m.charts[j] = m.charts[j], m.charts[i]
    elif o == "cs_attr":
        m.charts[op[1]].f[op[2].upper()] = op[3]
    elif o == "cs_key":
        m.charts[op[1]].f[op[2]] = op[3]
    elif o == "cs_extra":
        m.charts[op[1]].extra = None if op[2] is None else list(op[2])
    elif o == "cs_move":
        pass  # the six fields of an SM chart are always presented in the documented order
    elif o == "cc_swapnotes":
        c = m.charts[op[1]]
        nk = c.notes_key()
        c.d["NOTES2" if nk == "NOTES" else "NOTES"] = c.d.pop(nk)
    elif o == "cc_set":
        m.charts[op[1]].d[op[2]] = val(op[3], pool)
    elif o == "cc_del":
        del m.charts[op[1]].d[op[2]]
    elif o == "cc_setattr":
        m.charts[op[1]].setattr(op[2], val(op[3], pool))
    elif o == "cc_delattr":
        m.charts[op[1]].delattr(op[2])
    elif o == "cc_move":
        m.charts[op[1]].d.move_to_end(op[2], last=op[3])
    else:
        raise ValueError(op)


def chart_real_from_spec(spec, pool, kind):
    if kind == "sm":
        from simfile.sm import SMChart

        f, x, via = spec["f"], spec["x"], spec["via"]
        if via == "from_msd":
            return SMChart.from_msd(f + (x or [])) if x is not None else SMChart.from_msd(list(f))
        if via == "from_str":
            return SMChart.from_str(":".join(f + (x or [])))
        if via == "ctor":
            c = SMChart()
            for j in spec["order"]:
                c[M.SIX[j]] = f[j]
        else:
            c = SMChart.blank()
            c.stepstype, c.description, c.difficulty, c.meter, c.radarvalues, c.notes = f
        if x is not None:
            c.extradata = list(x)
        return c
    from simfile.ssc import SSCChart

    c = SSCChart()
    for k, v in spec["items"]:
        c[k] = val(v, pool)
    return c


def apply_real(s, op, pool, kind):
    """Apply op to the real simfile; returns an observable result where the op has one."""
    o = op[0]
    if o == "set":
        s[op[1]] = val(op[2], pool)
    elif o == "del":
        del s[op[1]]
    elif o == "setattr":
        setattr(s, op[1], val(op[2], pool))
    elif o == "delattr":
        delattr(s, op[1])
    elif o == "move":
        s.move_to_end(op[1], last=op[2])
    elif o == "reinsert":
        s[op[1]] = s[op[1]]
    elif o == "str":
        return str(s)
    elif o == "pop":
        return s.pop(op[1])
    elif o == "update":
        s.update([(k, val(v, pool)) for k, v in op[1]])
    elif o == "c_append":
        s.charts.append(chart_real_from_spec(op[1], pool, kind))
    elif o == "c_insert":
        s.charts.insert(op[1], chart_real_from_spec(op[2], pool, kind))
    elif o == "c_pop":
        s.charts.pop(op[1])
    elif o == "c_del":
        del s.charts[op[1]]
    elif o == "c_remove":
        s.charts.remove(s.charts[op[1]])
    elif o == "c_reverse":
        s.charts.reverse()
    elif o == "c_assign":
        s.charts = [chart_real_from_spec(x, pool, kind) for x in op[1]]
    elif o == "c_replace":
        s.charts[op[1]] = chart_real_from_spec(op[2], pool, kind)
    elif o == "c_swap":
        i, j = op[1], op[2]
        s.charts[i], s.charts[j] = s.charts[j], s.charts[i]
    elif o == "cs_attr":
        setattr(s.charts[op[1]], op[2], op[3])
    elif o == "cs_key":
        s.charts[op[1]][op[2]] = op[3]
    elif o == "cs_extra":
        s.charts[op[1]].extradata = None if op[2] is None else list(op[2])
    elif o == "cs_move":
        s.charts[op[1]].move_to_end(op[2], last=op[3])
    elif o == "cc_swapnotes":
        c = s.charts[op[1]]
        nk = "NOTES2" if "NOTES" not in c and "NOTES2" in c else "NOTES"
        c["NOTES2" if nk == "NOTES" else "NOTES"] = c.pop(nk)  # the very same string object under the other key
    elif o == "cc_set":
        s.charts[op[1]][op[2]] = val(op[3], pool)
    elif o == "cc_del":
        del s.charts[op[1]][op[2]]
    elif o == "cc_setattr":
        setattr(s.charts[op[1]], op[2], val(op[3], pool))
    elif o == "cc_delattr":
        delattr(s.charts[op[1]], op[2])
    elif o == "cc_move":
        s.charts[op[1]].move_to_end(op[2], last=op[3])
    else:
        raise ValueError(op)
    return None


def real_state(s, kind):
    """Observable state of the real simfile in the model's vocabulary."""
    items = list(s.items())
    charts = []
    for c in s.charts:
        if kind == "sm":
            charts.append(([c.stepstype, c.description, c.difficulty, c.meter, c.radarvalues, c.notes],
                           list(c.extradata or []), sorted(c.keys())))
        else:
            charts.append(list(c.items()))
    return items, charts


def model_state(m, kind):
    items = m.items()
    charts = []
    for c in m.charts:
        if kind == "sm":
            charts.append((c.six(), list(c.extra or []), sorted(M.SIX)))
        else:
            charts.append(c.items())
    return items, charts


def gen_history(rng, kind, tag, n_ops=None, identity=False):
    """-> case dict {kind, start, ops, pool}."""
    start = rng.choice(STARTS[kind])
    real = start_real(kind, start)
    model = model_of(real, kind)
    pool = []
    if identity:
        pool = [rng.choice(["", "0", "1", "x", "0000\n0000\n0000\n0000\n", "same"]) for _ in range(rng.randint(1, 3))]
    g = HistoryGen(rng, kind, model, tag, pool=pool, identity=identity)
    n = n_ops if n_ops is not None else rng.choice([0, 1, 3, 8, 15, 40])
    for _ in range(n):
        g.step()
    repaired = g.finalize()
    return {"kind": kind, "start": start, "ops": g.ops, "pool": pool}, repaired

"""
MSD text generator (DESIGN 4.4): texts are assembled from typed segments so the structure is known by
construction.  A segment is a JSON list:
    ["stray", text]        non-blank text between parameters (no '#', no '/')
    ["blank", text]        whitespace / line breaks (also U+FEFF)
    ["comment", text]      "//...." up to, not including, the line break
    ["param", key, [components...], terminator]   terminator ";" or "" (missing semicolon: the parameter then
                           runs to the next '#' at the start of a line or to the end of the text)
`render(segments)` gives the text; `expected_params(segments)` the (key, components) list a correct tokenizer
produces from it.
"""
from . import values as V

ESC = {":": "\\:", ";": "\\;", "\\": "\\\\"}


def escape(s):
    out = []
    i = 0
    while i < len(s):
        ch = s[i]
        if ch in ESC:
            out.append(ESC[ch])
        elif ch == "/" and s[i + 1:i + 2] == "/":
            out.append("\\//")
            i += 1
        else:
            out.append(ch)
        i += 1
    return "".join(out)


def render(segments):
    out = []
    for seg in segments:
        kind = seg[0]
        if kind in ("stray", "blank"):
            out.append(seg[1])
        elif kind == "comment":
            out.append("//" + seg[1])
        elif kind == "rawparam":
            out.append(seg[4])  # literal text whose tokenization is (key, comps)
        else:
            _, key, comps, term = seg
            out.append("#" + ":".join(escape(c) for c in [key] + comps) + term)
    return "".join(out)


def expected_params(segments):
    """(key, components) per parameter as a correct tokenizer yields them."""
    out = []
    open_param = None  # a parameter without ';' keeps absorbing following blank/stray/comment text
    for seg in segments:
        kind = seg[0]
        if kind in ("param", "rawparam"):
            open_param = None
            _, key, comps, term = seg[:4]
            p = [key] + list(comps)
            out.append(p)
            if term == "":
                open_param = p
        elif open_param is not None:
            if kind in ("stray", "blank"):
                open_param[-1] += seg[1]
            # comments vanish
    return [(p[0], p[1:]) for p in out]


# ------------------------------------------------------------------------------------------------ generation

SAFE_WORDS = ["a", "Song", "x y", "0.000=120.000", "dance-single", "Hard", "12", "a#b", "=", ",", "0000", "1001",
              "猫", "é", "テスト", "é", "*", "x.png", "gfx/bn.png", "\t", " "]
KEYS_SM = ["TITLE", "ARTIST", "title", "Artist", "OFFSET", "BPMS", "bpms", "STOPS", "FREEZES", "ATTACKS", "attacks",
           "DISPLAYBPM", "DisplayBpm", "BGCHANGES", "ANIMATIONS", "FOO", "foo", "X", "SELECTABLE", "MUSIC", "Banner", "VERSION", "version",
           # letters whose upper-case form is an ASCII letter although casefold()/lower() never give one (dotless i, long s)
           "T\u0131tle", "d\u0131\u017fplaybpm", "attack\u017f", "VERS\u0131ON", "VERSIONS", "VERSION2", "NOTES3", "NOTEDATA2", "VERSION ", "NOTE"]
KEYS_SSC_CHART = ["CHARTNAME", "STEPSTYPE", "stepstype", "DESCRIPTION", "DIFFICULTY", "METER", "meter", "RADARVALUES",
                  "CREDIT", "BPMS", "OFFSET", "DISPLAYBPM", "displaybpm", "ATTACKS", "FOO", "foo", "MUSIC", "LABELS",
                  "d\u0131\u017fplaybpm", "attack\u017f", "NOTES3", "NOTEDATA2", "NOTE", "\u017ftepstype"]


def long_with_token(rng, filler="0000\n"):
    """A long component whose value has a metacharacter token on / next to index 4096*k of the value (block boundaries of
    chunked writers and readers); never '///' and never a '#' after a line break."""
    boundary = rng.choice([4096, 4096, 8192, 8192, 12288, 16384])
    token = rng.choice(["//", "//", "//", "\\", ":", ";", "\\\\", "// c"])
    start = boundary - 1 + rng.choice([-2, -1, -1, -1, 0, 0, 1])
    body = (filler * (start // len(filler) + 1))[:start]
    if body.endswith("/"):
        body = body[:-1] + "0"
    return body + token + rng.choice(["", "0", " tail\n0000\n", "\n0001\n"])


def rcomp(rng, multiline=True):
    if multiline and rng.random() < 0.015:
        return long_with_token(rng, rng.choice(["0000\n", "y", "ab \n"]))
    n = rng.choice([0, 1, 1, 2, 3])
    parts = []
    for _ in range(n):
        r = rng.random()
        if r < 0.55:
            parts.append(rng.choice(SAFE_WORDS))
        elif r < 0.75:
            parts.append(rng.choice([":", ";", "\\", "//", "::", "\\\\", ";;"]))
        elif r < 0.9 and multiline:
            parts.append(rng.choice(["\n", "\n  ", "\n\n"]))
        else:
            parts.append(rng.choice([" ", "  ", "\t"]))
    s = "".join(parts)
    # never a '#' right after a line break (it would start a parameter), never '///'
    s = s.replace("\n#", "\n+").replace("///", "//")
    return s


def rparam(rng, key, ncomps=None, term=None):
    if ncomps is None:
        ncomps = rng.choice([0, 1, 1, 1, 1, 2, 3])
    comps = [rcomp(rng) for _ in range(ncomps)]
    # a trailing '/' before the separator/terminator is harmless, but '/' + '/' across components can't happen (':' between)
    term = term if term is not None else (";" if rng.random() < 0.88 else "")
    return ["param", key, comps, term]


def rkey(rng, pool):
    r = rng.random()
    if r < 0.7:
        return rng.choice(pool)
    if r < 0.85:
        return "".join(rng.choice("abXY01_ ") for _ in range(rng.randint(1, 5)))
    return rng.choice(["", " T ", "été", "straße", "K\\:", "a b", "猫"])


def glue(rng, segments, crlf):
    """Insert blank/comment/stray segments between parameters; fix up missing-semicolon parameters."""
    nl = "\r\n" if crlf else "\n"
    out = []
    bom = rng.random() < 0.15
    if bom:
        # msdparser treats U+FEFF as blank only when it is a text token of its own, i.e. directly in front of a
        # '#' or a comment at the very start of the text
        out.append(["blank", "\ufeff"])
    if rng.random() < 0.2:
        out.append(rng.choice([["comment", " a comment"]] if bom else
                              [["stray", "stray text"], ["comment", " a comment"], ["blank", nl + " "]]))
        if out[-1][0] in ("comment", "stray"):
            out.append(["blank", nl])
    for i, seg in enumerate(segments):
        out.append(seg)
        last = i == len(segments) - 1
        if seg[0] in ("param", "rawparam") and seg[3] == "":
            # missing semicolon: must be followed by a line break and then '#' (or the end of the text)
            if last:
                out.append(["blank", rng.choice(["", nl, nl + nl])])
            else:
                out.append(["blank", nl])
            continue
        r = rng.random()
        if r < 0.6:
            out.append(["blank", nl])
        elif r < 0.7:
            out.append(["blank", rng.choice(["", " ", nl + nl, "\t" + nl])])
        elif r < 0.8:
            out.append(["blank", " "])
            out.append(["comment", rng.choice([" note", "", " #NOTPARAM:x;", "---"])])
            out.append(["blank", nl])
        elif r < 0.9:
            out.append(["blank", nl])
            out.append(["stray", rng.choice(["garbage", "x:y;", "0000", "\\", "stray;text", "猫", "-"])])
            out.append(["blank", nl])
        else:
            out.append(["blank", nl])
    return out


def gen_sm_segments(rng):
    segs = []
    n = rng.choice([0, 1, 2, 4, 8, 14, 14, 70, 100])   # the last two: headers of more than 64 properties
    for _ in range(n):
        key = rkey(rng, KEYS_SM)
        if n >= 70 and rng.random() < 0.7:
            key = "K%d" % len(segs)
        if rng.random() < 0.12:
            key = rng.choice(["NOTES", "notes", "Notes", "note\u017f"])
            nc = rng.choice([6, 6, 6, 7, 9, 5, 1, 0])
            p = rparam(rng, key, ncomps=nc)
            if nc >= 6 and rng.random() < 0.7:
                p[2][:6] = ["\n     dance-single", "\n     " + rng.choice(["desc", "K\\O mix", "a\\"]), "\n     Hard", "\n     9", "\n     0,0,0", "\n0000\n0001\n,\n1000\n0000\n"]
            if nc >= 6 and rng.random() < 0.2:
                # fields framed by blanks that only str.strip() knows (NBSP, ideographic space, separators), also in the
                # compact one-line layout where no field has an ASCII blank at its edge
                uws = ["\u00a0", "\u3000", "\u2028", "\x1c", "\u2003", "\x0c", "\u0085", "\x0b"]
                if rng.random() < 0.5:
                    p[2][:6] = ["dance-single", "desc", "Hard", "12", "0,0", "0000\n0001\n1000\n0000"]
                for _ in range(rng.randint(1, 3)):
                    i = rng.randrange(6)
                    w = rng.choice(uws)
                    p[2][i] = (w if rng.random() < 0.6 else "") + p[2][i] + (w if rng.random() < 0.6 else "")
            segs.append(p)
            if nc >= 6 and rng.random() < 0.35:
                # a twin chart: the same six fields, other extra components; long note data now and then
                if rng.random() < 0.5:
                    p[2][5] = "\n" + ("0000\n0001\n0010\n0100\n,\n" * 60) + "1000\n"
                twin = ["param", key, list(p[2][:6]) + [rcomp(rng, multiline=False) for _ in range(rng.choice([0, 1, 2]))], ";"]
                if twin[2][6:] == p[2][6:]:
                    twin[2].append("twin")
                segs.append(twin)
        else:
            segs.append(rparam(rng, key))
    return segs


def gen_ssc_segments(rng, chart_only=False):
    segs = []
    if not chart_only:
        ver = rng.choice(["VERSION", "VERSION", "version", "Version", "VeRsIoN", "VERS\u0131ON", "vers\u0131on", "VER\u017fION"])
        r = rng.random()
        if r < 0.1:
            # the same key spelled with a (needless) escape inside: it still tokenizes to VERSION
            i = rng.randrange(1, len(ver))
            val = rng.choice(["0.83", ""])
            segs.append(["rawparam", ver, [val], ";", "#" + ver[:i] + "\\" + ver[i:] + ":" + val + ";"])
        elif r < 0.8:
            segs.append(["param", ver, [rng.choice(["0.83", "0.7", ""])], ";"])
        for _ in range(rng.choice([0, 1, 3, 6])):
            segs.append(rparam(rng, rkey(rng, KEYS_SM)))
    nch = rng.choice([0, 1, 1, 2, 3]) if not chart_only else 1
    for _ in range(nch):
        segs.append(["param", rng.choice(["NOTEDATA", "NOTEDATA", "notedata", "NoteData"]), rng.choice([[""], [""], [], ["x"]]), ";"])
        items = [rparam(rng, rkey(rng, KEYS_SSC_CHART)) for _ in range(rng.choice([0, 1, 3, 6]))]
        if rng.random() < 0.9:
            nk = rng.choice(["NOTES", "NOTES", "notes", "NOTES2", "Notes2", "note\u017f"])
            notes = ["param", nk, [rng.choice(["\n0000\n0000\n0000\n0000\n", "", "0", "\n0001\n,\n1000\n", "00\\00\n", "\n0000\n\\"])], ";"]
            if rng.random() < 0.08:
                notes[2] = [long_with_token(rng)]
            key_only = rng.random() < 0.15
            if key_only:
                notes[2] = []  # key-only note data parameter: '#NOTES;' 
                if not items or rng.random() < 0.5:
                    items.append(rparam(rng, rkey(rng, KEYS_SSC_CHART)))
            if key_only and rng.random() < 0.7:
                items.insert(rng.randint(0, len(items) - 1), notes)  # ... followed by more parameters
            else:
                items.insert(rng.randint(0, len(items)) if rng.random() < 0.3 else len(items), notes)
        segs.extend(items)
    return segs


def gen_text(rng):
    """-> {"segments": [...], "crlf": bool, "family": "sm"|"ssc"}"""
    family = rng.choice(["sm", "ssc"])
    segs = gen_sm_segments(rng) if family == "sm" else gen_ssc_segments(rng)
    if rng.random() < 0.006:
        # more than 256 (small) charts after whatever came before
        for j in range(rng.choice([257, 300])):
            if family == "sm":
                segs.append(["param", "NOTES", ["dance-single", "c%d" % j, "Hard", str(j), "0,0", "0000\n0000\n0000\n0000\n"], ";"])
            else:
                segs.append(["param", "NOTEDATA", [""], ";"])
                segs.append(["param", "METER", [str(j)], ";"])
                segs.append(["param", "NOTES", ["0000\n0000\n0000\n0000\n"], ";"])
    crlf = rng.random() < 0.25
    out = glue(rng, segs, crlf)
    if crlf:
        # line breaks inside values become CRLF too (file-based entry points translate them back)
        for seg in out:
            if seg[0] == "param":
                seg[2][:] = [c.replace("\n", "\r\n") for c in seg[2]]
    return {"segments": out, "crlf": crlf, "family": family}


def strip_stray(segments):
    """The same text with the stray segments removed (blank text kept)."""
    out = []
    for seg in segments:
        if seg[0] == "stray":
            continue
        out.append(seg)
    return out


def has_nonblank_stray(segments):
    """True if a non-blank stray segment lies *between parameters* (not absorbed by an unterminated parameter)."""
    open_param = False
    for seg in segments:
        if seg[0] in ("param", "rawparam"):
            open_param = seg[3] == ""
        elif seg[0] == "stray" and not open_param and seg[1].strip():
            return True
    return False

"""Generators for note-data texts (from cells) and note streams."""
from fractions import Fraction

NOTE_CHARS = "1234AFKLM"
ROW_COUNTS = [1, 2, 3, 4, 5, 6, 7, 8, 9, 10, 12, 16, 20, 24, 32, 36, 48, 64, 96, 100, 128, 192, 256, 384]


def gen_cells(rng, columns=None, players=None, measures=None, keysounds=None, density=None):
    """cells[p][m][r][c] = [char, keysound|None]"""
    columns = columns or rng.choice([1, 2, 3, 4, 4, 4, 5, 6, 8, 10, 16])
    players = players or rng.choice([1, 1, 1, 2, 2, 3])
    keysounds = rng.random() < 0.35 if keysounds is None else keysounds
    density = density if density is not None else rng.choice([0.03, 0.15, 0.4, 0.9])
    cells = []
    long_chart = measures is None and rng.random() < 0.02   # a section of several hundred measures
    for _p in range(players):
        nm = measures or rng.choice([1, 1, 2, 3, 4, 6, 12])
        if long_chart:
            nm = rng.randint(257, 330)
        pm = []
        for _m in range(nm):
            rows = rng.choice(ROW_COUNTS) if rng.random() < 0.7 else rng.choice([4, 8, 16])
            if long_chart:
                rows = 4
            if rows > 48 and rng.random() < 0.5:
                rows = rng.choice([4, 8, 12])
            mm = []
            for _r in range(rows):
                row = []
                for _c in range(columns):
                    if rng.random() < density:
                        ch = rng.choice(NOTE_CHARS)
                        ks = rng.choice([None, rng.randint(0, 9), rng.randint(0, 9999), 0, 0,
                                         rng.choice([2**31 - 1, 2**31, 2**32, 2**63, 10**30])]) if keysounds else None
                        row.append([ch, ks])
                    else:
                        row.append(["0", None])
                mm.append(row)
            pm.append(mm)
        if len(pm) >= 2 and rng.random() < 0.25:
            # the same measure again, character for character, after one or more empty measures
            src = rng.randrange(len(pm))
            gap = rng.randint(0, 2)
            rows = len(pm[src])
            for _ in range(gap):
                pm.append([[["0", None] for _ in range(columns)] for _ in range(rows if rng.random() < 0.5 else 4)])
            pm.append([[list(c) for c in row] for row in pm[src]])
        cells.append(pm)
    return cells


def render_cells(rng, cells, decorate=True):
    """Render cells to note data text with optional blanks / blank lines / CRLF."""
    nl = "\r\n" if (decorate and rng.random() < 0.3) else "\n"
    deco = decorate and rng.random() < 0.6
    if decorate and rng.random() < 0.08:
        # compact layout: the measure separator sits on the same line as the rows around it ("0001,1000")
        secs = []
        for pm in cells:
            ms = [nl.join("".join(ch + (f"[{ks}]" if ks is not None else "") for ch, ks in row) for row in mm) for mm in pm]
            # the separator right after the last row of a measure, or at the start of the next measure's first row line
            sep = rng.choice([",", "," + nl, nl + ","])
            secs.append(sep.join(ms))
        lead = rng.choice(["", "", nl, "\t", " " + nl])   # blanks or a blank line before the first row
        return lead + (nl + "&" + nl).join(secs) + (nl if rng.random() < 0.5 else "")

    def blank_lines():
        if deco and rng.random() < 0.3:
            return (rng.choice(["", " ", "\t", "  "]) + nl) * rng.randint(1, 2)
        return ""

    def pad():
        if deco and rng.random() < 0.3:
            return rng.choice([" ", "\t", "  ", " \t"])
        return ""

    out = []
    lead = blank_lines() if deco else ""
    out.append(lead)
    for p, pm in enumerate(cells):
        if p:
            out.append(blank_lines() + pad() + "&" + pad() + nl + blank_lines())
        for m, mm in enumerate(pm):
            if m:
                out.append(blank_lines() + pad() + "," + pad() + nl + blank_lines())
            for row in mm:
                s = "".join(ch + (f"[{ks}]" if ks is not None else "") for ch, ks in row)
                out.append(pad() + s + pad() + nl)
    out.append(blank_lines())
    text = "".join(out)
    if deco and rng.random() < 0.3:
        text = text.rstrip("\r\n")  # no trailing newline at all
    return text


def expected_notes(cells):
    """[(player, Fraction beat, column, char, keysound)] in text order."""
    out = []
    for p, pm in enumerate(cells):
        for m, mm in enumerate(pm):
            R = len(mm)
            for r, row in enumerate(mm):
                for c, (ch, ks) in enumerate(row):
                    if ch != "0":
                        out.append((p, Fraction(4 * m * R + 4 * r, R), c, ch, ks))
    return out


DENOMS = [1, 1, 2, 3, 4, 4, 5, 6, 7, 8, 12, 16, 48, 64, 192, 1000]


def gen_stream(rng, columns=None, players=None, n=None, keysounds=None, types=NOTE_CHARS, maxgap=5):
    """Sorted stream [[p, num, den, col, char, ks]] with one note per (p, beat, col)."""
    columns = columns or rng.choice([1, 2, 3, 4, 4, 6, 8, 16])
    pl = players if players is not None else rng.choice([[0], [0], [0], [0, 1], [1], [2], [0, 2], [0, 1, 2], [1, 2]])
    keysounds = rng.random() < 0.3 if keysounds is None else keysounds
    out = []
    for p in pl:
        m = 0
        count = n if n is not None else rng.choice([0, 1, 2, 5, 12, 30])
        measure = rng.randint(0, 2) * rng.randint(0, 1)
        made = 0
        while made < count:
            # a measure with a few beats of mixed denominators
            k = rng.randint(1, 4)
            dens = [rng.choice(DENOMS) for _ in range(rng.randint(1, 3))]
            beats = set()
            for _ in range(k):
                d = rng.choice(dens)
                beats.add(Fraction(rng.randint(0, 4 * d - 1), d))
            for b in sorted(beats):
                cols = sorted(rng.sample(range(columns), rng.randint(1, min(columns, 3))))
                for c in cols:
                    ks = rng.choice([None, rng.randint(0, 99)]) if keysounds else None
                    bb = 4 * measure + b
                    out.append([p, bb.numerator, bb.denominator, c, rng.choice(types), ks])
                    made += 1
            measure += 1 + (rng.randint(0, maxgap) if rng.random() < 0.25 else 0)
    if pl and rng.random() < 0.15 and columns >= 1:
        # two single-note measures with the same column/type whose beats print alike to three decimals
        p = pl[-1]
        last = max([n[1] // n[2] // 4 for n in out if n[0] == p] + [-1])
        k = rng.randint(1, 47)
        a = Fraction(k, 48)
        b = Fraction(round(float(a) * 1000), 1000)
        if a != b and f"{float(a):.3f}" == f"{float(b):.3f}":
            c, t = rng.randrange(columns), rng.choice(types)
            for i, x in enumerate((a, b)):
                bb = 4 * (last + 1 + i * rng.randint(1, 2)) + x
                out.append([p, bb.numerator, bb.denominator, c, t, None])
    if len(pl) >= 2 and rng.random() < 0.2:
        # routine twins: two players carry a measure of 48+ rows with exactly the same cells (same or different measure
        # number), so the measure's text occurs twice in the note data under different player indices
        a, b = pl[0], pl[-1]
        d = rng.choice([12, 16, 24, 48, 12, 48])
        twin = []
        for j in sorted(rng.sample(range(4 * d), rng.randint(1, 3))):
            for c in sorted(rng.sample(range(columns), rng.randint(1, min(columns, 2)))):
                twin.append((Fraction(j, d), c, rng.choice(types), rng.choice([None, rng.randint(0, 99)]) if keysounds else None))
        if any(x[0].denominator * 4 >= 48 or d >= 12 for x in twin):
            base = max([n[1] // n[2] // 4 for n in out] + [-1]) + 1
            for p_, shift in ((a, 0), (b, rng.choice([0, 0, 1, 2]))):
                for beat, c, t, ks in twin:
                    bb = 4 * (base + shift) + beat
                    out.append([p_, bb.numerator, bb.denominator, c, t, ks])
            out.sort(key=lambda n: (n[0], Fraction(n[1], n[2]), n[3]))
    return columns, out


def gen_single_stream(rng, columns=None, rows=None, types="1234M", density=0.5, keysounds=False, tail_ks=False):
    """Single-player stream on a row grid (quarter/eighth beats), heavy on holds: [[num, den, col, char, ks]]."""
    columns = columns or rng.randint(1, 6)
    rows = rows or rng.choice([3, 6, 10, 20, 40])
    step = rng.choice([Fraction(1), Fraction(1, 2), Fraction(1, 4), Fraction(1, 3), Fraction(1, 64), Fraction(1, 100), Fraction(1, 96),
                       Fraction(1, 10**18)])   # the last: distinct beats that are the same float
    out = []
    for r in range(rows):
        b = step * r + (4 if step.denominator > 10**6 else 0)   # 4, 4 + 1e-18, 4 + 2e-18, ...: one float, many beats
        for c in range(columns):
            if rng.random() < density:
                ch = rng.choice(types)
                ks = None
                if keysounds and (ch != "3" or tail_ks) and rng.random() < 0.5:
                    ks = rng.randint(0, 50)
                out.append([b.numerator, b.denominator, c, ch, ks])
    return columns, out


def gen_chain(rng, target=None, malformed=0.0):
    """A long single-player stream in which, once the first hold has started, some hold or roll is open at every
    moment (a chain of overlapping holds over 3-6 columns) with taps and mines in the free columns: whatever a
    consumer buffers "until no hold is open" grows to hundreds of notes. `malformed` sprinkles orphan tails and
    interrupting notes. -> (columns, [[num, den, col, char, ks]])"""
    columns = rng.randint(3, 6)
    target = target or rng.choice([300, 420, 560, 700])
    den = rng.choice([1, 2, 4, 4, 12])
    open_ = set()
    out = []
    r = 0
    while len(out) < target:
        row = []
        for c in range(columns):
            x = rng.random()
            if c in open_:
                # close only while another hold stays open (or one opens on this very row, decided below)
                if x < 0.35:
                    if len(open_) > 1:
                        row.append([c, "3"])
                        open_.discard(c)
                elif x < 0.35 + malformed:
                    row.append([c, rng.choice("1M2")])   # interrupts the open hold
                    if row[-1][1] != "2":
                        open_.discard(c)
            else:
                if x < 0.30:
                    row.append([c, rng.choice("224")])
                    open_.add(c)
                elif x < 0.55:
                    row.append([c, rng.choice("11M")])
                elif x < 0.55 + malformed:
                    row.append([c, "3"])              # orphan tail
        for c, ch in row:
            out.append([r, den, c, ch, None])
        r += 1
    for c in sorted(open_):
        out.append([r, den, c, "3", None])
    return columns, out

"""Timing-data cases: {"bpms": [[tick, "value"]], "stops": ..., "delays": ..., "warps": [[tick, len_ticks]], "offset": "s"}."""
from decimal import Decimal
from fractions import Fraction
from itertools import combinations

TICK = Fraction(1, 48)


def beat_str(k):
    return f"{k / 48:.3f}"


def respell(v, i):
    """The same decimal number in another spelling Decimal() accepts: exponent form, explicit plus sign."""
    d = Decimal(v)
    return [f"{d:E}", "+" + v, f"{d:e}", v][i % 4]


def to_strings(case, spell=False):
    def ev(lst):
        return ",\n".join(f"{beat_str(k)}={respell(v, i + k) if spell else v}" for i, (k, v) in enumerate(lst))

    return {
        "BPMS": ev(case["bpms"]),
        "STOPS": ev(case["stops"]),
        "DELAYS": ev(case["delays"]),
        # (a length of 0 ticks is written as a positive length below half a tick: it rounds to nothing, see C14)
        "WARPS": ",".join(f"{beat_str(k)}={beat_str(l) if l else ['0.010', '0.005', '0.000'][k % 3]}" for k, l in case["warps"]),
        "OFFSET": case["offset"],
    }


def to_text(case, extra="", style="ssc", spell=False):
    """style: 'ssc' | 'sm' (an SM simfile carrying the same keys) | 'sm-freezes' (its stops spelled #FREEZES)."""
    s = to_strings(case, spell)
    s["V"] = "#VERSION:0.83;\n" if style == "ssc" else "#TITLE:t;\n"
    s["STOPKEY"] = "FREEZES" if style == "sm-freezes" else "STOPS"
    return ("%(V)s#OFFSET:%(OFFSET)s;\n#BPMS:%(BPMS)s;\n#%(STOPKEY)s:%(STOPS)s;\n#DELAYS:%(DELAYS)s;\n#WARPS:%(WARPS)s;\n" % s) + extra


STYLES = ("ssc", "ssc", "sm", "sm-freezes")


def style_of(case):
    from ..core import digest64

    return STYLES[digest64(case) % 4]


def build_timing_data(case, style=None):
    """TimingData read the real way from a simfile text: SSC, SM, or SM with the legacy FREEZES spelling of STOPS."""
    from simfile.sm import SMSimfile
    from simfile.ssc import SSCSimfile
    from simfile.timing import TimingData

    from ..core import digest64

    style = style or style_of(case)
    h = digest64(case) // 4
    text = to_text(case, style=style, spell=h % 5 == 0)
    sf = SSCSimfile(string=text) if style == "ssc" else SMSimfile(string=text)
    if style == "ssc" and h % 7 == 1:
        # split timing: the case's timing sits on the CHART (an SSC simfile of version 0.7 / 0.70 / 0.83), the simfile
        # carries other values. A chart without OFFSET has offset 0 whatever the simfile says.
        from simfile.ssc import SSCChart

        s = to_strings(case, h % 5 == 0)
        ver = ["0.7", "0.70", "0.83", "0.7"][(h // 7) % 4]
        sf = SSCSimfile(string=f"#VERSION:{ver};\n#OFFSET:12.345;\n#BPMS:0.000=33.000;\n#STOPS:1.000=9.000;\n#WARPS:2.000=1.000;\n")
        chart = SSCChart.blank()
        for k in ("BPMS", "STOPS", "DELAYS", "WARPS"):
            chart[k] = s[k]
        if Decimal(case["offset"]) != 0 or (h // 28) % 2:
            chart["OFFSET"] = s["OFFSET"]
        return TimingData(sf, chart)
    if style == "ssc" and h % 3 == 0:
        # a chart is named as well, but its timing properties are absent or present-and-empty: the simfile's apply
        from simfile.ssc import SSCChart

        chart = SSCChart.blank()
        if h % 2:
            chart["STOPS"] = ""
            chart["WARPS"] = ""
        return TimingData(sf, chart)
    return TimingData(sf)


def variant_of(case):
    """Which reading variants build_timing_data applies to this case (for evidence)."""
    from ..core import digest64

    h = digest64(case) // 4
    out = set()
    if h % 5 == 0 and sum(len(case[k]) for k in ("bpms", "stops", "delays")) > 0:
        out.add("values_in_exponent_or_plus_sign_spelling")
    if style_of(case) == "ssc" and h % 7 == 1:
        out.add("timing_on_the_chart_of_a_version_0_7_simfile" if (h // 7) % 4 != 2 else "timing_on_the_chart")
        if Decimal(case["offset"]) == 0 and not (h // 28) % 2:
            out.add("chart_timing_without_an_offset_of_its_own")
    elif style_of(case) == "ssc" and h % 3 == 0 and h % 2:
        out.add("chart_with_empty_timing_properties_named")
    return out


def build_engine(case, style=None):
    from simfile.timing.engine import TimingEngine

    return TimingEngine(build_timing_data(case, style))


def build_timeline(case):
    from ..ref.timeline import Timeline

    f = lambda lst: [(Fraction(k, 48), Fraction(Decimal(v))) for k, v in lst]
    return Timeline(f(case["bpms"]), f(case["stops"]), f(case["delays"]),
                    [(Fraction(k, 48), Fraction(l, 48)) for k, l in case["warps"]], Fraction(Decimal(case["offset"])))


# ----------------------------------------------------------------- exhaustive small grid

GRID_BPM = {1: "120", 2: "90", 3: "240", 4: "30"}
GRID_STOP = {0: "0.5", 1: "1", 2: "0.25", 3: "2", 4: "0.75"}
GRID_DELAY = {0: "0.25", 1: "0.5", 2: "1", 3: "0.125", 4: "1.5"}


def grid_options():
    opts = []
    for b in range(1, 5):
        opts.append(("bpm", b, None))
    for b in range(0, 5):
        opts.append(("stop", b, None))
    for b in range(0, 5):
        opts.append(("delay", b, None))
    for b in range(0, 5):
        for l in (1, 2):
            opts.append(("warp", b, l))
    return opts


def grid_configs(max_events):
    opts = grid_options()
    for n in range(0, max_events + 1):
        for combo in combinations(range(len(opts)), n):
            evs = [opts[i] for i in combo]
            wb = [b for k, b, _ in evs if k == "warp"]
            if len(wb) != len(set(wb)):
                continue
            yield list(combo)


def grid_case(combo):
    opts = grid_options()
    c = {"bpms": [[0, "60"]], "stops": [], "delays": [], "warps": [], "offset": "0"}
    for i in combo:
        k, b, l = opts[i]
        if k == "bpm":
            c["bpms"].append([b * 48, GRID_BPM[b]])
        elif k == "stop":
            c["stops"].append([b * 48, GRID_STOP[b]])
        elif k == "delay":
            c["delays"].append([b * 48, GRID_DELAY[b]])
        else:
            c["warps"].append([b * 48, l * 48])
    for key in ("bpms", "stops", "delays", "warps"):
        c[key].sort()
    return c


# ----------------------------------------------------------------- random


def rdec(rng, lo, hi, places=3):
    x = rng.uniform(lo, hi)
    s = f"{x:.{places}f}"
    if Decimal(s) <= 0:
        s = "0." + "0" * (places - 1) + "1"
    return s


def random_case(rng, max_events=40, span_beats=400):
    n = rng.choice([1, 2, 3, 5, 8, 15, 25, max_events])
    span = rng.choice([8, 16, 50, span_beats]) * 48
    step = rng.choice([1, 4, 12, 24, 48])
    hot = sorted({rng.randrange(0, span, step) for _ in range(max(2, n // 2))} | ({0} if rng.random() < 0.4 else set()))
    c = {"bpms": {}, "stops": {}, "delays": {}, "warps": {}}
    bpm_style = rng.choice(["mid", "mid", "low", "high", "wide", "nice", "bounds"])

    def bpm():
        if bpm_style == "nice":  # 60/BPM is a finite decimal: event times can be hit exactly by an offset
            return rng.choice(["60", "120", "150", "240", "30", "200", "100", "75", "300", "96", "125", "160", "250", "48", "80",
                               "192", "128", "64", "60.000", "120.000"])
        if bpm_style == "bounds":  # the ends of the domain the properties name (1..2000), exactly, in several spellings
            return rng.choice(["1", "1.000", "2000", "2000.000", "1", "2000", "1.000000", "2", "1.001", "1999.999", "120"])
        if bpm_style == "mid":
            return rdec(rng, 60, 300)
        if bpm_style == "low":
            return rdec(rng, 1, 30)
        if bpm_style == "high":
            return rdec(rng, 400, 2000)
        return rdec(rng, 1, 2000, places=rng.choice([0, 3, 6]))

    c["bpms"][0] = bpm()
    for _ in range(n):
        kind = rng.choice(["bpm", "stop", "delay", "warp", "warp", "stop"])
        k = rng.choice(hot) if rng.random() < 0.7 else rng.randrange(0, span, step)
        if kind == "bpm":
            if k:
                c["bpms"][k] = bpm()
        elif kind == "stop":
            c["stops"][k] = rdec(rng, 0.001, rng.choice([0.1, 1, 10]))
        elif kind == "delay":
            c["delays"][k] = rdec(rng, 0.001, rng.choice([0.1, 1, 10]))
        else:
            # lengths that make nested / overlapping / touching warps likely
            l = rng.choice([1, 2, 12, 24, 48, 96, rng.randint(1, 96), 0])
            later = [h for h in hot if h > k]
            if later and rng.random() < 0.5:
                l = max(1, rng.choice(later) - k + rng.choice([0, 0, -1, 1, step]))
            c["warps"][k] = l
    if rng.random() < 0.06:
        # many separate warp segments (17-40), beyond anything a small-table fast path would handle linearly
        start = span + 96
        for i in range(rng.randint(17, 40)):
            c["warps"][start + i * 96 + rng.choice([0, 0, 1, 12])] = rng.choice([12, 24, 48, 1])
    # events of different kinds on ADJACENT ticks (k and k+-1): neither the same beat nor a comfortable gap
    for _ in range(rng.choice([0, 0, 1, 2, 3])):
        have = [k for key in ("bpms", "stops", "delays", "warps") for k in c[key]]
        k = max(0, rng.choice(have) + rng.choice([-1, 1, 1]))
        kind = rng.choice(["bpm", "stop", "delay", "warp", "warp", "stop"])
        if kind == "bpm":
            if k:
                c["bpms"].setdefault(k, bpm())
        elif kind == "warp":
            c["warps"].setdefault(k, rng.choice([1, 2, 12, 48, 96]))
        else:
            c[kind + "s"].setdefault(k, rdec(rng, 0.001, rng.choice([0.1, 1, 10])))
    # equal VALUES across kinds: a pause as long (in seconds) as a neighbouring BPM value, a BPM repeated by a
    # later change after something else happened in between
    if rng.random() < 0.3:
        pauses = [(key, k) for key in ("stops", "delays") for k in c[key]]
        if pauses:
            key, k = rng.choice(pauses)
            later = sorted(b for b in c["bpms"] if b > k)
            if not later or rng.random() < 0.3:
                nb = k + rng.choice([1, 12, 48, 192])
                c["bpms"][nb] = bpm()
                later = sorted(b for b in c["bpms"] if b > k)
            if rng.random() < 0.6:
                c[key][k] = c["bpms"][later[0]]  # the pause lasts as many seconds as the next BPM's value
            else:
                prev = max(b for b in c["bpms"] if b <= k)
                c[key][k] = c["bpms"][prev]  # ... as the BPM in force
                if rng.random() < 0.5:
                    c["bpms"][later[0]] = c["bpms"][prev]  # and the next change repeats the BPM in force
    off = rng.choice(["0", "0", rdec(rng, 0.001, 3), "-" + rdec(rng, 0.001, 100), rdec(rng, 0.001, 100)])
    case = {"bpms": [[k, v] for k, v in sorted(c["bpms"].items())],
            "stops": [[k, v] for k, v in sorted(c["stops"].items())],
            "delays": [[k, v] for k, v in sorted(c["delays"].items())],
            "warps": [[k, v] for k, v in sorted(c["warps"].items())],
            "offset": off}
    if rng.random() < (0.6 if bpm_style == "nice" else 0.1):
        # a positive offset under which some event boundary (start or end of a pause, a BPM change, a warp end) falls
        # on song time exactly 0 -- when that time is a finite decimal
        tl = build_timeline(dict(case, offset="0"))
        cands = [(Fraction(k, 48), 6) for k, _ in case["stops"]] + [(Fraction(k, 48), 4) for k, _ in case["delays"]]
        cands += [(Fraction(k, 48), 2) for k, _ in case["bpms"][1:]] + [(b, 1) for _, b in tl.U]
        cands += [(Fraction(k, 48), 5) for k, _ in case["stops"]]
        rng.shuffle(cands)
        for b, tag in cands:
            t = tl.time(b, tag)
            d = t.denominator
            while d % 2 == 0:
                d //= 2
            while d % 5 == 0:
                d //= 5
            if d == 1 and 0 < t < 10000:
                dec = Decimal(t.numerator) / Decimal(t.denominator)
                if Fraction(dec) == t and len(str(dec)) <= 18:
                    case["offset"] = str(dec)
                    break
    return case


def corpus_cases():
    """Timing of every corpus simfile and of every chart with split timing, as cases (skipped if out of domain)."""
    import os
    import simfile
    from simfile.timing import TimingData
    from ..core import REPO

    out = []
    for d in ("L9/L9.ssc", "Springtime/Springtime.ssc", "blank/blank.sm", "blank/blank.ssc", "nekonabe/nekonabe.sm"):
        sf = simfile.open(os.path.join(REPO, "testdata", d))
        for i, ch in [(None, None)] + list(enumerate(sf.charts)):
            td = TimingData(sf, ch) if ch is not None else TimingData(sf)
            name = d if ch is None else f"{d}#{i}"
            ok = bool(td.bpms) and td.bpms[0].beat == 0 and all(e.value > 0 for e in td.bpms) \
                and all(e.value > 0 for e in td.stops) and all(e.value > 0 for e in td.delays) \
                and all(e.value > 0 for e in td.warps)
            for lst in (td.bpms, td.stops, td.delays, td.warps):
                beats = [e.beat for e in lst]
                if beats != sorted(set(beats)) or any(b < 0 for b in beats):
                    ok = False
            ticks = lambda b: int(b * 48)
            case = {"bpms": [[ticks(e.beat), str(e.value)] for e in td.bpms],
                    "stops": [[ticks(e.beat), str(e.value)] for e in td.stops],
                    "delays": [[ticks(e.beat), str(e.value)] for e in td.delays],
                    "warps": [[ticks(e.beat), int(Fraction(e.value) * 48 + Fraction(1, 2))] for e in td.warps],
                    "offset": str(td.offset)}
            out.append((name, case, ok))
    return out


def event_features(case):
    """Coincidence classes present in a case (for evidence)."""
    from ..ref.timeline import Timeline  # noqa: F401

    tl = build_timeline(case)
    f = set()
    sb = {Fraction(k, 48) for k, _ in case["stops"]}
    db = {Fraction(k, 48) for k, _ in case["delays"]}
    if sb & db:
        f.add("stop_on_delay")
    raw = [(Fraction(k, 48), Fraction(k + l, 48)) for k, l in case["warps"]]
    for i, (a, b) in enumerate(raw):
        for (c, d) in raw[i + 1:]:
            if c < b and d <= b:
                f.add("nested_warps")
            elif c < b:
                f.add("overlapping_warps")
            elif c == b:
                f.add("touching_warps")
    if len(raw) >= 3 and len(tl.U) < len(raw) - 1:
        f.add("three_warps_one_union")
    if len(tl.U) > 16:
        f.add("more_than_16_separate_warp_segments")
    if any(l == 0 for _, l in case["warps"]):
        f.add("warp_shorter_than_half_a_tick")
    for (a, b) in tl.U:
        if a == 0:
            f.add("warp_at_beat_0")
        for p in sb | db:
            kind = "stop" if p in sb else "delay"
            if p == a:
                f.add(kind + "_at_warp_start")
            elif a < p < b:
                f.add(kind + "_inside_warp")
            elif p == b:
                f.add("pause_at_warp_end")
        for k, _ in case["bpms"][1:]:
            if a <= Fraction(k, 48) < b:
                f.add("bpm_change_inside_warp")
    if 0 in sb or 0 in db:
        f.add("pause_at_beat_0")
    kinds = {}
    for key in ("bpms", "stops", "delays", "warps"):
        for k, _ in case[key]:
            kinds.setdefault(k, set()).add(key)
    for k, ks in kinds.items():
        if any(kinds.get(k + 1, set()) - ks for _ in (0,)):
            f.add("different_kinds_on_adjacent_ticks")
        if "stops" in ks and "warps" in kinds.get(k + 1, ()):
            f.add("warp_one_tick_after_a_stop")
    bv = {Decimal(v) for _, v in case["bpms"]}
    if any(Decimal(v) in bv for key in ("stops", "delays") for _, v in case[key]):
        f.add("pause_seconds_equal_a_bpm_value")
    off = Fraction(Decimal(case["offset"]))
    if off > 0:
        t0 = dict(case, offset="0")
        tl0 = build_timeline(t0)
        for (b, _v) in tl.stops:
            if tl0.time(b, 6) == off or tl0.time(b, 5) == off:
                f.add("pause_boundary_at_time_zero")
        for (b, _v) in tl.delays:
            if tl0.time(b, 4) == off or tl0.time(b, 3) == off:
                f.add("pause_boundary_at_time_zero")
    return f

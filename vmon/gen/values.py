"""Hostile value alphabet and the msdparser-gap domain guard (DESIGN 4.1, 4.2)."""
import re

META = ["#", ":", ";", "\\", "/", "//", "\\\\", "\\:", "\\;", "::", ";;", ":;", "#:", "=", ",", "{", "}", "{}", "{0}", "%s", "{x"]
BREAKS = ["\n", "\r\n", "\n\n"]
BLANKS = [" ", "\t", "\u00a0", "\u2028", "\x1c", "  "]
WORDS = ["a", "b", "Song", "Title", "x.png", "gfx\\banner.png", "0", "1", "", "0.000=120.000", "dance-single",
         "TIME=1.5:END=2:MODS=*2 drunk", "120.000:240.000", "*", "http://example.com/a", "C:\\Songs\\x.ogg"]
EXOTIC = ["\u732b", "\U0001f3b5", "e\u0301", "\u200f", "\ufeff", "\u00e9", "\uac00", "\u30c6\u30b9\u30c8", "\x00", "\x7f", "\uffff", "\ufffe", "\u212a"]

# keys one character away from the keywords the loaders and the format detection look for
NEAR_MISS_KEYS = ["VERSIONS", "VERSION2", "VERSIONINFO", "VERSION ", "VERSIO", "AVERSION", " VERSION", "VERSION\t", "VERSION_",
                  "NOTES3", "NOTE", "NOTES ", "NOTES2 ", "NOTEDATA2", "NOTEDATAS", "NOTEDAT", "NOTES22", " NOTES"]

_GAP_HASH = re.compile(r"[\r\n][:;\\]*#")


def in_gap(components):
    """True if an MSD parameter with these components (key first) falls into msdparser's escaping gaps."""
    if "#" in components[0]:
        return True
    if any("///" in c for c in components):
        return True
    # the parameter is written on a new line: a key made only of escaped characters (or empty) leaves the line
    # break of the previous line as the lexer's last text token, so a '#' at the start of the value is exposed too
    return bool(_GAP_HASH.search("\n" + ":".join(components)))


def rvalue(rng, tag=None, allow_cr=False, long_ok=True):
    """A random hostile string (not yet guarded)."""
    r = rng.random()
    if r < 0.08:
        return rng.choice(["", "0", "1", "x"])
    n = rng.choice([1, 1, 2, 3, 5, 8])
    parts = []
    for _ in range(n):
        k = rng.random()
        if k < 0.35:
            parts.append(rng.choice(META))
        elif k < 0.45:
            parts.append(rng.choice(BREAKS + (["\r"] if allow_cr else [])))
        elif k < 0.55:
            parts.append(rng.choice(BLANKS))
        elif k < 0.85:
            parts.append(rng.choice(WORDS))
        else:
            parts.append(rng.choice(EXOTIC))
    if tag is not None and rng.random() < 0.5:
        parts.insert(rng.randrange(len(parts) + 1), tag)
    s = "".join(parts)
    if long_ok and rng.random() < 0.03:
        # a long value with a metacharacter token placed on / next to a power-of-two index of the component
        # (buffer boundaries of chunked readers and writers: 4096, 8192, 16384)
        boundary = rng.choice([4096, 8192, 8192, 16384])
        token = rng.choice(["\\", ":", "//", "//", ";", "\n", "\\\\"])
        start = boundary - 1 + rng.choice([-2, -1, -1, 0, 0, 1])
        if len(s) < start:
            s = s + "y" * (start - len(s)) + token + "z"
    return s


def repair(components, rng=None):
    """Make a component tuple leave the gap by replacing offending characters; returns the new tuple."""
    comps = list(components)
    comps[0] = comps[0].replace("#", "+")
    comps = [re.sub(r"/{3,}", "//", c) for c in comps]
    for _ in range(50):
        joined = "\n" + ":".join(comps)
        m = _GAP_HASH.search(joined)
        if not m:
            break
        # find the component that holds the '#' at m.end()-1 and replace it
        pos = m.end() - 2
        acc = 0
        for i, c in enumerate(comps):
            if acc <= pos < acc + len(c):
                j = pos - acc
                comps[i] = c[:j] + "+" + c[j + 1:]
                break
            acc += len(c) + 1
    return tuple(comps)


def rkey(rng, avoid=()):
    """An upper-case key (k.upper() == k), never containing '#'."""
    for _ in range(100):
        r = rng.random()
        if r < 0.5:
            k = rng.choice(["TITLE", "ARTIST", "FOO", "BAR", "CUSTOM", "X", "GENRE", "CREDIT", "MUSIC", "BANNER",
                            "BGCHANGES", "ANIMATIONS", "STOPS", "FREEZES", "ATTACKS", "DISPLAYBPM", "OFFSET", "BPMS",
                            "SELECTABLE", "KEYSOUNDS", "LASTBEATHINT", "NOTES2", "VERSION", "WARPS", "LABELS",
                            # near the two multi-value keys: substrings of them, a look-alike (KELVIN SIGN for K), braces
                            "BPM", "DISPLAY", "ATTACK", "A", "S", "ATTAC\u212aS", "SONG{ID}", "{}", "K{0}"])
        elif r < 0.8:
            k = "".join(rng.choice("ABCXYZ019_") for _ in range(rng.randint(1, 6)))
        else:
            k = "".join(rng.choice(["A", "K", " ", ":", ";", "\\", "/", "\u732b", "\u00c9", "=", "\n", "\t", "", "{", "}", "\uffff"]) for _ in range(rng.randint(0, 4)))
        k = k.upper()
        if k.upper() != k or "#" in k or k in avoid or "///" in k:
            continue
        return k
    return "KEY"


def long_notes(rng):
    """Note data of 66-131 thousand characters with a few line separators other than LF (CRLF, lone CR, FF, U+2028);
    no leading or trailing blanks."""
    size = rng.choice([66000, 70000, 131100])
    body = ("0000\n0001\n0010\n0100\n" * (size // 20 + 1))[:size].rstrip()
    chars = list(body)
    for _ in range(rng.randint(1, 4)):
        i = rng.randrange(5, len(chars) - 5)
        j = "".join(chars).find("\n", i)
        if j > 0:
            chars[j] = rng.choice(["\r\n", "\r\n", "\r", "\x0c\n", "\u2028", "\n\n"])
    return "".join(chars)

"""C01 -- SM simfile: serialize then parse gives back the same simfile."""
from io import StringIO

from ..gen import edits as E
from ..gen import values as V
from ..ref import dictmodel as M

KIND = "sm"
LEVEL = "exploration"
DESIGN_REF = "5/C01"
TECHNIQUE = "history + executable model: edit histories applied to the real SMSimfile and a dictionary model in lock-step; round-trip oracle through the strict parser, loads() and the trusted tokenizer"
LEVEL_TEXT = (
    "Seeded edit histories (0-40 operations from blank(), the empty simfile and the SM corpus files; hostile values "
    "with every MSD metacharacter, line breaks, key-only properties, charts with extra components; serialization in "
    "the middle of a history) are applied to the real object and to a shadow model; the final object must equal the "
    "model, its text must re-parse strictly to the model, re-serialize identically, be detected as SM and have the "
    "documented parameter structure according to msdparser's tokenizer. Held = held on the counted histories."
)
LEVEL_NOTE = "Trusts msdparser.parse_msd as tokenizer, the dictionary model (vmon/ref/dictmodel.py) and the syntactic gap guard (values in msdparser's escaping gaps are repaired out of the domain and probed as known findings)."
RULE = (
    "enum: every string of length <= 4 (quick) / <= 5 (thorough) over {#, :, ;, backslash, /, LF, CR, a} as a value, as a value under the empty key, as an ATTACKS value, as chart description, chart notes and extra component - all that the gap guard lets through must round-trip (this is the runtime validation of the guard). "
    "case = start object + list of edit operations (set/del by key and attribute, move_to_end, pop, update, chart "
    "append/insert/pop/remove/reverse/assign/replace/swap, chart field edits by attribute and key, extradata, str() "
    "mid-history); values from the hostile alphabet, repaired out of the msdparser gaps at the end of the history. "
    "Non-trivial when the final simfile has a chart or a value containing an MSD metacharacter or line break; "
    "distinct by canonical JSON of the history."
    ' Round 5: near-miss keys of VERSION/NOTES/NOTEDATA set and moved to the front.'
    ' Round 6: marathon charts with non-LF separators, 32-70 charts, second parse after the first result was edited in place.'
    ' Round 7: braces and U+FFFF/U+212A in values and keys, keys that are substrings or look-alikes of the multi-value keys.'
    ' Round 9: a first parameter with an escape on text offsets 4095/8191/16383/65535.'
)
EXHAUSTIVE_PART = "all strings of length <= 4 (quick, 4681) / <= 5 (thorough, 37449) over 8 symbols in 6 placements"
ASSUMPTIONS = ["msdparser.parse_msd tokenizes correctly", "values inside msdparser's escaping gaps are excluded by the property"]
MONITORS = ["enum_roundtrip", "model_equality", "roundtrip", "restringify", "loads_detects_sm", "tokenizer_structure", "serialize_file", "second_parse_after_editing_the_first"]
REQUIRED = ["key_only", "multi_value_with_colons", "value_has_colon", "value_has_semicolon", "value_has_backslash",
            "value_has_dslash", "value_has_lf", "value_has_crlf", "extradata", "charts_reordered", "crosses_4096",
            "backslash_without_other_meta", "str_mid_history_then_extradata_edit", "corpus_start",
            "meta_token_on_8192_boundary", "chart_fields_assigned_out_of_order", "first_key_is_a_near_miss_of_VERSION",
            "property_key_is_a_near_miss_of_NOTES", "simfile_with_32_or_more_charts",
            "chart_notes_beyond_65536_characters_with_a_non_lf_separator", "first_parameter_longer_than_4096_characters"]


def anchors():
    from ..core import pick

    return pick(
        "simfile.base:BaseSimfile.serialize",
        "simfile.base:BaseCharts.serialize",
        "simfile.sm:SMChart.serialize",
        "simfile.sm:SMSimfile._parse",
        "simfile.sm:SMChart._from_msd",
        "simfile.sm:SMChart.__setitem__",
    )


ENUM_ALPHABET = ["#", ":", ";", "\\", "/", "\n", "\r", "a"]


def enum_string(index):
    """index -> string over ENUM_ALPHABET (bijective base-8 numeration: '', then all of length 1, 2, ...)."""
    out = []
    while index > 0:
        index -= 1
        out.append(ENUM_ALPHABET[index % 8])
        index //= 8
    return "".join(reversed(out))


def cases(ctx):
    # every string of length <= 4 (quick) / <= 5 (thorough) over 8 symbols, in five positions of an SM simfile
    total = sum(8 ** k for k in range(0, (4 if ctx.tier == "quick" else 5) + 1))
    block = 512
    for bi, n0 in enumerate(range(0, total, block)):
        if ctx.mine(bi):
            yield {"kind": "enum", "n0": n0, "n1": min(total, n0 + block)}
    ctx.exhaustive = True
    if ctx.shard == 0:
        # the FIRST parameter long enough that an escaped character falls on text offsets 4095, 8191, 16383, 65535 (+-1):
        # whatever a reader peeks at to detect the format must not cut an escape pair in two
        for seam in (4096, 8192, 16384, 65536):
            for d in (-2, -1, 0):
                for esc in (":", "\\"):
                    k = seam + d - len("#TITLE:")
                    yield {"kind": KIND, "start": "empty", "ops": [["set", "TITLE", "x" * k + esc + "tail"], ["set", "ARTIST", "a"]], "pool": []}
    n = ctx.split(2500 if ctx.tier == "quick" else 16 * 25000)
    for i in range(n):
        case, repaired = E.gen_history(ctx.rng, KIND, f"v{ctx.shard}.{i}")
        if repaired:
            ctx.skipped["values repaired out of the msdparser gap"] += repaired
        yield case


def features(ctx, m, case, text):
    vals = [v for _, v in m.items()] + [f for c in m.charts for f in c.six()] + [x for c in m.charts for x in (c.extra or [])]
    if any(v is None for v in vals):
        ctx.feat("key_only")
    sv = [v for v in vals if v is not None]
    for name, pat in (("colon", ":"), ("semicolon", ";"), ("backslash", "\\"), ("dslash", "//"), ("lf", "\n"), ("crlf", "\r\n")):
        if any(pat in v for v in sv):
            ctx.feat("value_has_" + name)
    if any("\\" in v and ":" not in v and ";" not in v and "//" not in v for v in sv):
        ctx.feat("backslash_without_other_meta")
    if any(k in M.MULTI and v and ":" in v for k, v in m.items()):
        ctx.feat("multi_value_with_colons")
    if any(c.extra for c in m.charts):
        ctx.feat("extradata")
    if any(op[0] in ("c_reverse", "c_swap", "c_insert") for op in case["ops"]):
        ctx.feat("charts_reordered")
    if len(text) > 4096:
        ctx.feat("crosses_4096")
    seen_str = False
    for op in case["ops"]:
        if op[0] == "str":
            seen_str = True
        elif op[0] == "cs_extra" and seen_str:
            ctx.feat("str_mid_history_then_extradata_edit")
    if case["start"] not in ("blank", "empty"):
        ctx.feat("corpus_start")
    for v in sv:
        if len(v) > 8192 and any(v[i:i + 2] in ("//", "\\\\") or v[i] in ":;\\" for i in (8190, 8191, 8192)):
            ctx.feat("meta_token_on_8192_boundary")
    if any(op[0] == "cs_move" for op in case["ops"]) or any(
            isinstance(x, dict) and x.get("via") == "ctor" for op in case["ops"] for x in (op[1:] if op[0].startswith("c_") else [])
            for x in ([x] if isinstance(x, dict) else (x if isinstance(x, list) else []))):
        ctx.feat("chart_fields_assigned_out_of_order")
    return any(any(ch in v for ch in ":;\\/\n\r") for v in sv) or bool(m.charts)


def run_history(ctx, case, kind):
    """Apply the history to the real object and the model in lock-step; -> (real, model) or None on violation."""
    pool = E.make_pool(case)
    real = E.start_real(kind, case["start"])
    model = E.model_of(real, kind)
    for i, op in enumerate(case["ops"]):
        want = None
        if op[0] == "pop":
            want = model.d.get(op[1])
        E.apply_model(model, op, pool, kind)
        got = E.apply_real(real, op, pool, kind)
        if op[0] == "pop" and got != want:
            ctx.violation("history:pop-returned-wrong-value", {"op_index": i, "op": op, "got": got, "want": want})
            return None
    ctx.mon("model_equality")
    rs, ms = E.real_state(real, kind), E.model_state(model, kind)
    if rs != ms:
        ctx.violation("history:object-differs-from-model", {"real": repr(rs)[:800], "model": repr(ms)[:800]})
        return None
    return real, model


def check_enum(ctx, case):
    """Exhaustive short values: whatever the guard lets through must survive the round trip."""
    from simfile.sm import SMChart, SMSimfile

    ctx.begin(case, nontrivial=False)
    ctx.evaluations -= 1
    for n in range(case["n0"], case["n1"]):
        v = enum_string(n)
        ctx.evaluations += 1
        ctx.digests.add(hash(("enum", n)) & 0xFFFFFFFFFFFFFFFF)
        if n in (300, 2000):
            ctx.add_sample({"kind": "enum", "index": n, "value": v})
        placements = [("value", [("TITLE", v)], None), ("second-value", [("A", "1"), ("", v)], None),
                      ("multi-value", [("ATTACKS", v)], None)]
        if v == v.strip():
            placements.append(("chart-description", [], ["dance-single", v, "Hard", "1", "0,0", "0000"]))
            placements.append(("chart-notes", [], ["dance-single", "", "Hard", "1", "0,0", v]))
        placements.append(("chart-extradata", [], ["dance-single", "", "Hard", "1", "0,0", "0000", v]))
        for label, items, chart in placements:
            comps = [M.param_components(k, x) for k, x in items]
            if chart is not None:
                comps.append(M.smchart_components(chart[:6], chart[6:]))
            if any(V.in_gap(c) for c in comps):
                ctx.skip("enumerated value inside the msdparser gap guard")
                continue
            ctx.mon("enum_roundtrip")
            s = SMSimfile(string="")
            for k, x in items:
                s[k] = x
            if chart is not None:
                s.charts.append(SMChart.from_msd(chart))
            text = str(s)
            try:
                r = SMSimfile(string=text)
                ok = list(r.items()) == items and len(r.charts) == len(s.charts) and str(r) == text
                if ok and chart is not None:
                    c = r.charts[0]
                    ok = [c.stepstype, c.description, c.difficulty, c.meter, c.radarvalues, c.notes] == chart[:6] and list(c.extradata or []) == chart[6:]
            except Exception as e:
                ok = False
                r = repr(e)
            if not ok:
                ctx.violation(f"enum:{label}:round-trip-fails-outside-the-guard", {"value": v, "placement": label, "text": text, "reparsed": repr(r)[:300]},
                              case={"kind": "enum", "n0": n, "n1": n + 1})


def first_key_of(m):
    return next(iter(m.d), None)


def check(ctx, case):
    import simfile
    from msdparser import parse_msd
    from simfile.sm import SMSimfile

    if case["kind"] == "enum":
        return check_enum(ctx, case)
    res = run_history(ctx, case, KIND)
    if res is None:
        ctx.begin(case)
        return
    s, m = res
    text = str(s)
    if E.real_state(s, KIND) != E.model_state(m, KIND):
        ctx.violation("serialize:modified-the-simfile", {"after_str": repr(E.real_state(s, KIND))[:600], "model": repr(E.model_state(m, KIND))[:600]})
    nontrivial = features(ctx, m, case, text)
    if len(m.charts) >= 32:
        ctx.feat("simfile_with_32_or_more_charts")
    fv = next(iter(m.d.values()), None)
    if fv and len(fv) > 4000 and text[:1] == "#":
        ctx.feat("first_parameter_longer_than_4096_characters")
    if any(len(mc.six()[5]) > 65536 and any(ch in mc.six()[5] for ch in "\r\x0c\u2028") for mc in m.charts):
        ctx.feat("chart_notes_beyond_65536_characters_with_a_non_lf_separator")
    ctx.begin(case, nontrivial=nontrivial, sample={"start": case["start"], "n_ops": len(case["ops"]), "ops": case["ops"][:6], "text": text[:300]})

    # (4) serialize(file) writes the same text
    ctx.mon("serialize_file")
    buf = StringIO()
    s.serialize(buf)
    ctx.expect(buf.getvalue() == text, "serialize:file-differs-from-str", a=buf.getvalue()[:300], b=text[:300])

    # (2) strict re-parse equals the model
    ctx.mon("roundtrip")
    try:
        r = SMSimfile(string=text)
    except Exception as e:
        ctx.violation(f"roundtrip:strict-parse-raised:{type(e).__name__}", {"exc": repr(e), "text": text[:600]})
        return
    ok = type(r) is SMSimfile and list(r.items()) == m.items() and len(r.charts) == len(m.charts)
    diff = None
    if ok:
        for rc, mc in zip(r.charts, m.charts):
            got = [rc.stepstype, rc.description, rc.difficulty, rc.meter, rc.radarvalues, rc.notes]
            if got != mc.six() or list(rc.extradata or []) != list(mc.extra or []) or sorted(rc.keys()) != sorted(M.SIX):
                ok = False
                diff = {"chart_got": got, "extra_got": rc.extradata, "chart_want": mc.six(), "extra_want": mc.extra}
                break
    else:
        diff = {"items_got": repr(list(r.items()))[:600], "items_want": repr(m.items())[:600], "n_charts": [len(r.charts), len(m.charts)]}
    ctx.expect(ok, "roundtrip:reparsed-differs", diff=diff, text=text[:600])
    ctx.expect(r == s and s == r and not (r != s), "roundtrip:eq-operator-says-different", text=text[:300])

    # (3) second serialization reproduces the text
    ctx.mon("restringify")
    ctx.expect(str(r) == text, "restringify:differs", first=text[:400], second=str(r)[:400])

    # (3b) the first parse result is scribbled on in place (properties, chart fields, the extra-component lists, the
    # chart list); parsing the same text again must still give the model: results of two parses share nothing
    if ok:
        ctx.mon("second_parse_after_editing_the_first")
        r["SCRIBBLE"] = "x"
        for k in list(r)[:2]:
            r[k] = "scribbled"
        for rc in r.charts:
            rc.description = "scribbled"
            if rc.extradata is not None:
                rc.extradata.append("scribble")
                if len(rc.extradata) > 1:
                    rc.extradata[0] = "scribbled"
        if r.charts:
            r.charts.pop()
        try:
            r2 = simfile.loads(text) if ctx.evaluations % 2 and first_key_of(m) != "VERSION" else SMSimfile(string=text)
            ok2 = type(r2) is SMSimfile and list(r2.items()) == m.items() and len(r2.charts) == len(m.charts) and all(
                [rc.stepstype, rc.description, rc.difficulty, rc.meter, rc.radarvalues, rc.notes] == mc.six()
                and list(rc.extradata or []) == list(mc.extra or []) for rc, mc in zip(r2.charts, m.charts))
            ctx.expect(ok2 and str(r2) == text, "second-parse:differs-after-the-first-result-was-edited",
                       items=repr(list(r2.items()))[:300], extras=repr([rc.extradata for rc in r2.charts])[:300])
        except Exception as e:
            ctx.violation(f"second-parse:raised:{type(e).__name__}", {"exc": repr(e)})
        r = SMSimfile(string=text)

    # (5) auto-detection
    first_key = next(iter(m.d), None)
    if first_key != "VERSION":
        ctx.mon("loads_detects_sm")
        if first_key is not None and first_key != "VERSION" and "VERSION" in first_key:
            ctx.feat("first_key_is_a_near_miss_of_VERSION")
        if "NOTES2" in m.d or "NOTES3" in m.d or "NOTES " in m.d:
            ctx.feat("property_key_is_a_near_miss_of_NOTES")
        try:
            l = simfile.loads(text)
            ctx.expect(type(l) is SMSimfile and l == r, "loads:not-detected-as-sm-or-differs", type=type(l).__name__)
        except Exception as e:
            ctx.violation(f"loads:raised:{type(e).__name__}", {"exc": repr(e), "text": text[:400]})
    else:
        ctx.skip("first key is VERSION (auto-detection clause not claimed)")

    # (6) emitted structure according to the trusted tokenizer
    ctx.mon("tokenizer_structure")
    params = [tuple(p.components) for p in parse_msd(string=text)]
    want = [M.param_components(k, v) for k, v in m.items()]
    got_props = params[: len(want)]
    ctx.expect(got_props == want, "structure:property-parameters", got=repr(got_props)[:500], want=repr(want)[:500])
    chart_params = params[len(want):]
    okc = len(chart_params) == len(m.charts)
    if okc:
        for p, mc in zip(chart_params, m.charts):
            if not (p[0] == "NOTES" and len(p) >= 7 and [c.strip() for c in p[1:7]] == mc.six()
                    and list(p[7:]) == list(mc.extra or [])):
                okc = False
                break
    ctx.expect(okc, "structure:chart-parameters", got=repr(chart_params)[:600], want=repr([(c.six(), c.extra) for c in m.charts])[:600])


# ---------------------------------------------------------------------------------------------- known findings


def _probe_roundtrip(build):
    def probe(ctx):
        from simfile.sm import SMSimfile

        s = build()
        t = str(s)
        try:
            r = SMSimfile(string=t)
        except Exception as e:
            return f"re-parse raised {type(e).__name__}"
        if list(r.items()) != list(s.items()) or len(r.charts) != len(s.charts) or any(
                a.notes != b.notes for a, b in zip(r.charts, s.charts)):
            return "re-parse differs: " + repr(list(r.items()))[:120]
        return None
    return probe


def _sm(items, chart_notes=None):
    def build():
        from simfile.sm import SMChart, SMSimfile

        s = SMSimfile(string="")
        for k, v in items:
            s[k] = v
        if chart_notes is not None:
            c = SMChart.blank()
            c.notes = chart_notes
            s.charts.append(c)
        return s
    return build


PROBES = {
    "msd-hash-after-linebreak": (_probe_roundtrip(_sm([("TITLE", "a\n#b")])), "value 'a\\n#b': re-parse splits the parameter (msdparser escaping gap)"),
    "msd-hash-after-linebreak-via-colon": (_probe_roundtrip(_sm([("TITLE", "a\n:#b")])), "value 'a\\n:#b': re-parse splits the parameter (msdparser escaping gap)"),
    "msd-hash-at-start-of-sm-notes": (_probe_roundtrip(_sm([], chart_notes="#x")), "SM chart notes '#x': the serializer's leading line break exposes the '#' (msdparser escaping gap)"),
    "msd-hash-after-escape-only-key": (_probe_roundtrip(_sm([("A", "1"), (";", "#x")])), "key ';' (only escaped characters, or empty) with value '#x': the '#' is reached from the previous line's break (msdparser escaping gap)"),
    "multi-value-key-only-none": (_probe_roundtrip(_sm([("TITLE", "t"), ("ATTACKS", None)])), "a key-only (None) ATTACKS/DISPLAYBPM property is written '#ATTACKS;' and re-parses as '' instead of None (the parser joins zero components)"),
    "msd-triple-slash": (_probe_roundtrip(_sm([("TITLE", "a///b")])), "value 'a///b': re-parse loses the tail as a comment (msdparser escaping gap)"),
    "msd-triple-slash-in-key": (_probe_roundtrip(_sm([("A///B", "v")])), "key 'A///B': re-parse loses the rest of the line as a comment (msdparser escaping gap; the property lists '///' for values only)"),
    "msd-hash-in-key": (_probe_roundtrip(_sm([("A\n#B", "v")])), "key 'A\\n#B': re-parse splits the key (msdparser escaping gap)"),
}

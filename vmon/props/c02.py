"""C02 -- SSC simfile: serialize then parse gives back the same simfile."""
from io import StringIO

from ..gen import edits as E
from ..ref import dictmodel as M
from . import c01

KIND = "ssc"
LEVEL = "exploration"
DESIGN_REF = "5/C02"
TECHNIQUE = "history + executable model: edit histories applied to the real SSCSimfile/SSCChart and a dictionary model in lock-step (identity-aliased and interned values included); round-trip oracle through the strict parser, loads(), SSCChart.from_str and the trusted tokenizer"
LEVEL_TEXT = (
    "Seeded edit histories over SSC simfiles and charts (arbitrary upper-case chart keys in any order, NOTES or NOTES2 "
    "at any position, values that are empty, interned one-character strings or the very same object as the note "
    "data) are applied to the real object and a shadow model; the serialized text must strictly re-parse to the "
    "model with each chart's note data moved last, re-serialize identically, be detected as SSC when VERSION is "
    "first, round-trip through SSCChart.from_str, and have the NOTEDATA...NOTES framing according to the tokenizer."
)
LEVEL_NOTE = c01.LEVEL_NOTE
RULE = c01.RULE.replace("chart field edits by attribute and key, extradata", "SSC chart edits by key and attribute incl. deletion and reordering") + \
    " Values may be pool references: the same Python string object under several keys (identity aliasing)." \
    " Round 6: 32-70 charts, second load (loads) after the first result was edited in place." \
    ' Round 8: charts with 258-300 properties, a first parameter longer than 64 KiB.' \
    ' Round 9: the text read back from files named almost like simfiles (song.prism, chasm, assc).'
ASSUMPTIONS = c01.ASSUMPTIONS
MONITORS = ["model_equality", "roundtrip", "restringify", "loads_detects_ssc", "tokenizer_structure", "chart_from_str", "eq_when_notes_last", "second_parse_after_editing_the_first", "file_named_almost_like_a_simfile"]
REQUIRED = ["empty_notes", "interned_notes", "same_object_as_notes", "notes2", "notes_not_last", "chart_multi_value",
            "key_only_in_chart", "value_equal_to_notes", "notes_backslash_without_other_meta", "corpus_start",
            "notes_moved_to_other_key_after_str", "key_starting_with_NOTES_before_the_notes", "simfile_with_32_or_more_charts",
            "chart_with_258_or_more_properties", "first_parameter_longer_than_64_KiB"]


def anchors():
    from ..core import pick

    return pick(
        "simfile.base:BaseSimfile.serialize",
        "simfile.ssc:SSCChart.serialize",
        "simfile.ssc:SSCChart._parse",
        "simfile.ssc:SSCSimfile._parse",
    )


def cases(ctx):
    if ctx.shard == 0:
        # the first parameter (VERSION) longer than 64 KiB, with an escaped character on text offsets 65534..65537
        for d in (-1, 0, 1, 2):
            k = 65535 + d - len("#VERSION:")
            yield {"kind": KIND, "start": "blank", "ops": [["set", "VERSION", "x" * k + ":" + "tail;\\z"]], "pool": []}
    n = ctx.split(2500 if ctx.tier == "quick" else 16 * 25000)
    for i in range(n):
        case, repaired = E.gen_history(ctx.rng, KIND, f"v{ctx.shard}.{i}", identity=True)
        if repaired:
            ctx.skipped["values repaired out of the msdparser gap"] += repaired
        yield case


def features(ctx, m, s, case):
    for c, rc in zip(m.charts, s.charts):
        nk = c.notes_key()
        notes = c.d.get(nk)
        if notes == "":
            ctx.feat("empty_notes")
        if notes in ("0", "1", "x"):
            ctx.feat("interned_notes")
        if nk == "NOTES2":
            ctx.feat("notes2")
        keys = list(c.d.keys())
        if keys and keys[-1] != nk:
            ctx.feat("notes_not_last")
        if any(k in M.MULTI and v and ":" in v for k, v in c.d.items()):
            ctx.feat("chart_multi_value")
        if any(v is None for v in c.d.values()):
            ctx.feat("key_only_in_chart")
        if any(k.startswith("NOTES") and k != nk and keys.index(k) < keys.index(nk) for k in keys):
            ctx.feat("key_starting_with_NOTES_before_the_notes")
        if any(k != nk and v == notes for k, v in c.d.items()):
            ctx.feat("value_equal_to_notes")
        real_notes = rc.get(nk)
        if any(k != nk and v is real_notes for k, v in rc.items()):
            ctx.feat("same_object_as_notes")
        if notes and "\\" in notes and ":" not in notes and ";" not in notes and "//" not in notes:
            ctx.feat("notes_backslash_without_other_meta")
    if case["start"] not in ("blank", "empty"):
        ctx.feat("corpus_start")
    seen_str = False
    for op in case["ops"]:
        if op[0] == "str":
            seen_str = True
        elif op[0] == "cc_swapnotes" and seen_str:
            ctx.feat("notes_moved_to_other_key_after_str")


def check(ctx, case):
    import simfile
    from msdparser import parse_msd
    from simfile.ssc import SSCChart, SSCSimfile

    res = c01.run_history(ctx, case, KIND)
    if res is None:
        ctx.begin(case)
        return
    s, m = res
    if any(c.notes_key() not in c.d for c in m.charts):
        ctx.begin(case, nontrivial=False)
        ctx.skip("a chart lost its note data (outside the quantifier)")
        return
    text = str(s)
    if E.real_state(s, KIND) != E.model_state(m, KIND):
        ctx.violation("serialize:modified-the-simfile", {"after_str": repr(E.real_state(s, KIND))[:600], "model": repr(E.model_state(m, KIND))[:600]})
    features(ctx, m, s, case)
    ctx.begin(case, nontrivial=bool(m.charts) or any(v and any(ch in v for ch in ":;\\/\n\r") for _, v in m.items()),
              sample={"start": case["start"], "n_ops": len(case["ops"]), "ops": case["ops"][:5], "pool": case["pool"], "text": text[:300]})
    buf = StringIO()
    s.serialize(buf)
    ctx.expect(buf.getvalue() == text, "serialize:file-differs-from-str", a=buf.getvalue()[:300], b=text[:300])

    ctx.mon("roundtrip")
    try:
        r = SSCSimfile(string=text)
    except Exception as e:
        ctx.violation(f"roundtrip:strict-parse-raised:{type(e).__name__}", {"exc": repr(e), "text": text[:600]})
        return
    want_charts = [c.moved_last() for c in m.charts]
    got_charts = [list(c.items()) for c in r.charts]
    ok = type(r) is SSCSimfile and list(r.items()) == m.items() and got_charts == want_charts \
        and all(type(c) is SSCChart for c in r.charts)
    if not ok:
        diff = {"items_got": repr(list(r.items()))[:500], "items_want": repr(m.items())[:500]}
        for g, w in zip(got_charts, want_charts):
            if g != w:
                diff.update(chart_got=repr(g)[:500], chart_want=repr(w)[:500])
                break
        diff["n_charts"] = [len(got_charts), len(want_charts)]
        ctx.violation("roundtrip:reparsed-differs", {"diff": diff, "text": text[:600]})
    ctx.mon("eq_when_notes_last")
    if all(c.items() == c.moved_last() for c in m.charts):
        ctx.expect(r == s and s == r and not (r != s), "roundtrip:eq-operator-says-different", text=text[:300])

    ctx.mon("restringify")
    ctx.expect(str(r) == text, "restringify:differs", first=text[:400], second=str(r)[:400])

    # the first parse result is scribbled on in place (properties, chart properties, the chart list); loading the same
    # text again - through loads() when the text is detected as SSC - must give the model again
    if ok:
        ctx.mon("second_parse_after_editing_the_first")
        via_loads = next(iter(m.d), None) == "VERSION"
        try:
            first = simfile.loads(text) if via_loads else r
            first["SCRIBBLE"] = "x"
            for c in first.charts:
                c["SCRIBBLE"] = "y"
                for k in list(c)[:2]:
                    c[k] = "scribbled"
            if first.charts:
                first.charts.pop()
            r2 = simfile.loads(text) if via_loads else SSCSimfile(string=text)
            ok2 = type(r2) is SSCSimfile and list(r2.items()) == m.items() and [list(c.items()) for c in r2.charts] == want_charts
            ctx.expect(ok2 and str(r2) == text, "second-parse:differs-after-the-first-result-was-edited",
                       via="loads" if via_loads else "SSCSimfile(string=)", charts=repr([list(c.items()) for c in r2.charts])[:400])
        except Exception as e:
            ctx.violation(f"second-parse:raised:{type(e).__name__}", {"exc": repr(e)})
        r = SSCSimfile(string=text)
    if len(m.charts) >= 32:
        ctx.feat("simfile_with_32_or_more_charts")
    if any(len(c.d) >= 258 for c in m.charts):
        ctx.feat("chart_with_258_or_more_properties")
    if len(next(iter(m.d.values()), None) or "") > 65000:
        ctx.feat("first_parameter_longer_than_64_KiB")

    if next(iter(m.d), None) == "VERSION":
        ctx.mon("loads_detects_ssc")
        try:
            l = simfile.loads(text)
            ctx.expect(type(l) is SSCSimfile and l == r, "loads:not-detected-as-ssc-or-differs", type=type(l).__name__)
        except Exception as e:
            ctx.violation(f"loads:raised:{type(e).__name__}", {"exc": repr(e), "text": text[:400]})
        if ctx.evaluations % 6 == 0:
            # the same text in a file whose name ends in the letters "sm" / "ssc" without being a .sm / .ssc name:
            # only the content decides, and the content starts with VERSION
            import os
            import tempfile

            tmp = tempfile.mkdtemp(prefix="vmon-c02-")
            try:
                for name in ("song.prism", "chasm", "x.plasm", "assc", "notes.xssc", "SM"):
                    p = os.path.join(tmp, name)
                    try:
                        with open(p, "w", encoding="utf-8", newline="") as fh:
                            fh.write(text)
                    except UnicodeEncodeError:
                        break
                    ctx.mon("file_named_almost_like_a_simfile")
                    try:
                        with open(p, encoding="utf-8", newline="") as fh:
                            a = simfile.load(fh)
                        b = simfile.open(p, encoding="utf-8")
                        ctx.expect(type(a) is SSCSimfile and type(b) is SSCSimfile, "file:not-detected-as-ssc-by-content",
                                   name=name, load=type(a).__name__, open=type(b).__name__)
                    except Exception as e:
                        ctx.violation(f"file:raised:{type(e).__name__}", {"name": name, "exc": repr(e)[:200]})
            finally:
                import shutil

                shutil.rmtree(tmp, ignore_errors=True)

    # stand-alone chart round trip
    for rc, mc in zip(s.charts, m.charts):
        ctx.mon("chart_from_str")
        ct = str(rc)
        try:
            back = SSCChart.from_str(ct)
        except Exception as e:
            ctx.violation(f"chart_from_str:raised:{type(e).__name__}", {"exc": repr(e), "text": ct[:400]})
            break
        if list(back.items()) != mc.moved_last() or str(back) != ct:
            ctx.violation("chart_from_str:differs", {"got": repr(list(back.items()))[:500], "want": repr(mc.moved_last())[:500], "text": ct[:400]})
            break

    ctx.mon("tokenizer_structure")
    params = [tuple(p.components) for p in parse_msd(string=text)]
    want = [M.param_components(k, v) for k, v in m.items()]
    for c in m.charts:
        want.append(("NOTEDATA", ""))
        want.extend(M.param_components(k, v) for k, v in c.moved_last())
    ctx.expect(params == want, "structure:parameters", got=repr(params)[:700], want=repr(want)[:700])


def _probe(build):
    def probe(ctx):
        from simfile.ssc import SSCSimfile

        s = build()
        t = str(s)
        try:
            r = SSCSimfile(string=t)
        except Exception as e:
            return f"re-parse raised {type(e).__name__}"
        if list(r.items()) != list(s.items()) or [list(c.items()) for c in r.charts] != [list(c.items()) for c in s.charts]:
            return "re-parse differs: " + repr((list(r.items()), [list(c.items()) for c in r.charts]))[:140]
        return None
    return probe


def _ssc(items, chart_items=None):
    def build():
        from simfile.ssc import SSCChart, SSCSimfile

        s = SSCSimfile(string="")
        for k, v in items:
            s[k] = v
        if chart_items is not None:
            c = SSCChart()
            for k, v in chart_items:
                c[k] = v
            s.charts.append(c)
        return s
    return build


PROBES = {
    "msd-hash-after-linebreak": (_probe(_ssc([("VERSION", "0.83"), ("TITLE", "a\n#b")])), "value 'a\\n#b': re-parse splits the parameter (msdparser escaping gap)"),
    "msd-hash-after-linebreak-in-chart": (_probe(_ssc([("VERSION", "0.83")], [("CREDIT", "a\r\n;#b"), ("NOTES", "0000")])), "chart value 'a\\r\\n;#b': re-parse splits the parameter (msdparser escaping gap)"),
    "multi-value-key-only-none": (_probe(_ssc([("VERSION", "0.83")], [("DISPLAYBPM", None), ("NOTES", "0000")])), "a key-only (None) ATTACKS/DISPLAYBPM property (simfile or chart level) is written '#DISPLAYBPM;' and re-parses as '' instead of None"),
    "msd-triple-slash": (_probe(_ssc([("VERSION", "0.83")], [("NOTES", "00///00")])), "note data '00///00': re-parse loses the tail as a comment (msdparser escaping gap)"),
    "msd-triple-slash-in-key": (_probe(_ssc([("VERSION", "0.83")], [("A///B", "v"), ("NOTES", "0000")])), "chart key 'A///B': re-parse loses the rest of the line as a comment (msdparser escaping gap; the property lists '///' for values only)"),
    "msd-hash-in-key": (_probe(_ssc([("A\n#B", "v")])), "key 'A\\n#B': re-parse splits the key (msdparser escaping gap)"),
    "msd-hash-after-escape-only-key": (_probe(_ssc([("VERSION", "0.83"), ("", "#x")])), "empty key with value '#x': the '#' is reached from the previous line's break (msdparser escaping gap)"),
}

"""C03 -- Loading builds exactly the documented object, through every entry point."""
import io
import os
import shutil
import tempfile

from ..gen import msdtext as G
from ..ref import loader as L

LEVEL = "exploration"
DESIGN_REF = "5/C03"
TECHNIQUE = "runtime oracle on every loading entry point: documented rules applied to the trusted tokenizer's parameters (lazily, so the first error in text order is expected) plus a by-construction oracle from the generator's segment list; cross-entry-point agreement"
LEVEL_TEXT = (
    "Generated texts with known segment structure (lower-case and duplicate keys, key-only and multi-component "
    "parameters, parameters after NOTES/NOTEDATA, stray text before/between/after parameters, missing semicolons, "
    "BOM, CRLF) and structural mutations of the corpus files are loaded through all entry points x strict, and each "
    "result (object or exception class) is compared with the rules applied to msdparser's parameters; lenient "
    "loading must equal strict loading of the text without its stray segments. Held = held on the counted texts."
)
LEVEL_NOTE = "Trusts msdparser.parse_msd as tokenizer (the property is stated relative to it) and the 60-line rule model vmon/ref/loader.py; file-based entry points are compared on the text after universal-newline translation."
RULE = (
    "text = rendered segment list (stray/blank/comment/param with ';' or missing terminator) or a mutated corpus "
    "file; each text goes through up to 21 entry points x strict in {True, False}. Non-trivial when the text has at "
    "least two parameters; distinct by canonical JSON of the segments."
    ' Round 5: keys with U+0131/U+017F (upper-case to ASCII), near-miss keywords, file names with several dots, long components with tokens on 4096-multiples.'
    ' Round 6: SM chart fields framed by Unicode blanks, strict passed positionally.'
    ' Round 7: symbolic links across suffix classes, line iterators with empty items, headers of 70-100 properties.'
    ' Round 8: texts with 257-300 charts.'
)
EXHAUSTIVE_PART = "thorough: every truncation of nekonabe.sm (and of the first 600 boundaries of L9.ssc and Springtime.ssc) at every structural boundary x all entry points x strict"
ASSUMPTIONS = ["msdparser.parse_msd is the tokenizer the rules are applied to", "Python's text-mode newline translation"]
MONITORS = ["entry_point", "construction_oracle", "lenient_equals_stripped", "strict_rejects_iff_stray", "chart_from_msd"]
REQUIRED = ["lower_case_key", "duplicate_key", "param_after_notes", "stray_before_first_param", "stray_between",
            "stray_after", "missing_semicolon", "bom", "crlf", "short_chart", "file_other_suffix", "version_mixed_case",
            "lower_case_multi_value_key", "long_preamble_before_version", "key_only_param", "corpus_mutation",
            "version_key_spelled_with_escape", "key_only_notes_then_more_parameters",
            "non_ascii_letter_that_upper_cases_to_ascii_in_key", "version_key_with_dotless_i_or_long_s",
            "sm_chart_field_framed_by_a_non_ascii_blank", "symbolic_link_to_a_file_of_another_suffix_class"]

FILE_NAMES = ["x.sm", "x.ssc", "x.SM", "x.SsC", "x.txt", "x.sm.bak", ".sm", "noext", "x.v2.ssc", "song.ssc.sm"]


def anchors():
    from ..core import pick

    return pick(
        "simfile:_detect_ssc",
        "simfile:load",
        "simfile:loads",
        "simfile:open",
        "simfile:open_with_detected_encoding",
        "simfile.base:BaseSimfile.__init__",
        "simfile.sm:SMSimfile._parse",
        "simfile.sm:SMChart._from_msd",
        "simfile.ssc:SSCSimfile._parse",
        "simfile.ssc:SSCChart._parse",
    )


def corpus_texts():
    from ..core import REPO

    out = []
    for d in ("L9/L9.ssc", "Springtime/Springtime.ssc", "blank/blank.sm", "blank/blank.ssc", "nekonabe/nekonabe.sm"):
        with open(os.path.join(REPO, "testdata", d), encoding="utf-8") as f:
            out.append((d, f.read()))
    return out


def mutate_corpus(rng, text):
    """Truncate / splice / duplicate at structural boundaries ('#', ';', ':', line breaks)."""
    bounds = [i for i, ch in enumerate(text) if ch in "#;:\n"]
    r = rng.random()
    if not bounds or r < 0.1:
        return text
    if r < 0.45:
        i = rng.choice(bounds)
        return text[: i + rng.choice([0, 1])]
    if r < 0.7:
        i, j = sorted(rng.sample(bounds, 2))
        return text[:i] + text[j:]
    if r < 0.85:
        i, j = sorted(rng.sample(bounds, 2))
        j = min(j, i + 3000)
        return text[:j] + text[i:j] + text[j:]
    i = rng.choice(bounds)
    return text[:i] + rng.choice(["stray", "\n", ";", ":", "\\", "//c\n", "#title:lower;"]) + text[i:]


def cases(ctx):
    rng = ctx.rng
    n = ctx.split(1000 if ctx.tier == "quick" else 16 * 8000)
    corpus = corpus_texts()
    if ctx.tier == "thorough":
        # every truncation of nekonabe.sm, and of the first 600 boundaries of the two SSC files, at a structural
        # boundary, through all entry points (the two blank corpus files are empty)
        k = 0
        for name, text in corpus:
            seen = 0
            for pos, ch in enumerate(text):
                if ch in "#:;\n":
                    seen += 1
                    if seen > 600 and not name.startswith("nekonabe"):
                        break
                    for cut in (pos, pos + 1):
                        if ctx.mine(k):
                            t = text[:cut]
                            if _ends_with_odd_backslashes(t):
                                t += "x"
                            yield {"kind": "corpus", "name": name, "text": t, "truncated_at": cut}
                        k += 1
        ctx.exhaustive = True
    for i in range(n):
        r = i % 10
        if r == 9:
            name, text = rng.choice(corpus)
            t = mutate_corpus(rng, text)
            if _ends_with_odd_backslashes(t):
                t += "x"
            yield {"kind": "corpus", "name": name, "text": t}
        elif r == 8:
            # a long run of comments / blank lines in front of an SSC text (format peek must read past it)
            segs = G.gen_ssc_segments(rng)
            pre = [["comment", " filler " + "x" * rng.randint(50, 90)], ["blank", "\n"]] * rng.choice([3, 60, 80])
            body = G.glue(rng, segs, False)
            head = []
            if body and body[0] == ["blank", "\ufeff"]:
                head, body = body[:1], body[1:]
            yield {"kind": "gen", "segments": head + pre + body, "crlf": False, "family": "ssc"}
        else:
            yield dict(G.gen_text(rng), kind="gen")
        if i % 7 == 0:
            yield {"kind": "smchart", "comps": [G.rcomp(rng, multiline=True) for _ in range(rng.choice([0, 3, 5, 6, 6, 7, 9]))]}
        if i % 9 == 0:
            yield {"kind": "sscchart", "segments": G.glue(rng, G.gen_ssc_segments(rng, chart_only=True), False)}


def _ends_with_odd_backslashes(t):
    n = len(t) - len(t.rstrip("\\"))
    return n % 2 == 1


def norm(exp):
    """Key-only ATTACKS/DISPLAYBPM may be '' or None; compare extradata as lists."""
    if exp[0] != "ok":
        return exp
    fix = lambda items: [(k, ("" if (k in L.MULTI and v is None) else v)) for k, v in items]
    kind, fmt, items, charts = exp
    if fmt == "ssc":
        charts = [fix(c) for c in charts]
    return (kind, fmt, fix(items) if items is not None else None, charts)


def call(fn):
    try:
        return L.observe(fn())
    except Exception as e:
        return ("raise", type(e).__name__)


def check(ctx, case):
    kind = case["kind"]
    if kind == "smchart":
        return check_smchart(ctx, case)
    if kind == "sscchart":
        return check_sscchart(ctx, case)
    import simfile
    from simfile.sm import SMSimfile
    from simfile.ssc import SSCSimfile

    text = case["text"] if kind == "corpus" else G.render(case["segments"])
    if _ends_with_odd_backslashes(text):
        ctx.begin(case, nontrivial=False)
        ctx.skip("text ends in an unpaired backslash (known finding msd-trailing-backslash)")
        return
    try:
        text.encode("utf-8")
    except UnicodeEncodeError:
        ctx.begin(case, nontrivial=False)
        ctx.skip("not encodable")
        return
    ftext = text.replace("\r\n", "\n").replace("\r", "\n")  # what a text-mode file read delivers
    nparams = None
    if kind == "gen":
        segs = case["segments"]
        params = G.expected_params(segs)
        nparams = len(params)
        observe_features(ctx, segs, params, case)
    else:
        ctx.feat("corpus_mutation")
    ctx.begin(case, nontrivial=(nparams is None or nparams >= 2),
              sample={"kind": kind, "text": text[:400], "n_params": nparams})

    tmp = tempfile.mkdtemp(prefix="vmon-c03-")
    try:
        paths = {}
        for name in FILE_NAMES:
            p = os.path.join(tmp, name)
            with open(p, "w", encoding="utf-8", newline="") as f:
                f.write(text)
            paths[name] = p
        # symbolic links whose own name and whose target's name fall into different suffix classes: the name given decides
        links = {"link.ssc": "x.txt", "link.sm": "x.ssc", "link.txt": "x.ssc", "link2.ssc": "x.sm"}
        for ln, target in links.items():
            os.symlink(paths[target], os.path.join(tmp, ln))
            paths[ln] = os.path.join(tmp, ln)
        from fs.memoryfs import MemoryFS

        mem = MemoryFS()
        for name in ("x.ssc", "y.SM", "z.txt"):
            mem.writebytes("/" + name, text.encode("utf-8"))
        for strict in (True, False):
            exp_cache = {}

            def exp(t, fmt):
                key = (t is ftext, fmt)
                if key not in exp_cache:
                    exp_cache[key] = norm(L.expect(t, fmt, strict))
                return exp_cache[key]

            entries = [
                ("loads", lambda: simfile.loads(text, strict=strict), text, "auto"),
                ("load(StringIO)", lambda: simfile.load(io.StringIO(text), strict=strict), text, "auto"),
                ("load(iter(lines))", lambda: simfile.load(iter(text.splitlines(keepends=True)), strict=strict), text, "auto"),
                ("SMSimfile(string)", lambda: SMSimfile(string=text, strict=strict), text, "sm"),
                ("SSCSimfile(string)", lambda: SSCSimfile(string=text, strict=strict), text, "ssc"),
                ("SMSimfile(file=StringIO)", lambda: SMSimfile(file=io.StringIO(text), strict=strict), text, "sm"),
                ("SSCSimfile(file=StringIO)", lambda: SSCSimfile(file=io.StringIO(text), strict=strict), text, "ssc"),
                ("SMSimfile(file=iter)", lambda: SMSimfile(file=iter(text.splitlines(keepends=True)), strict=strict), text, "sm"),
                ("SSCSimfile(file=iter)", lambda: SSCSimfile(file=iter(text.splitlines(keepends=True)), strict=strict), text, "ssc"),
            ]
            for ln in links:
                low = ln.lower()
                fmt_l = "ssc" if low.endswith(".ssc") else ("sm" if low.endswith(".sm") else "auto")
                entries.append((f"open({ln} -> {links[ln]})", lambda p=paths[ln]: simfile.open(p, strict=strict), ftext, fmt_l))
                ctx.feat("symbolic_link_to_a_file_of_another_suffix_class")
            # an iterator of lines may hold empty strings (a filter that blanks lines, a chain with an empty header)
            def with_empties():
                ls = text.splitlines(keepends=True)
                out = ["", ""] + ls[:1] + [""] + ls[1:3] + ["", ""] + ls[3:]
                return iter(out)

            entries += [
                ("SMSimfile(file=iter with '' items)", lambda: SMSimfile(file=with_empties(), strict=strict), text, "sm"),
                ("SSCSimfile(file=list with '' items)", lambda: SSCSimfile(file=list(with_empties()), strict=strict), text, "ssc"),
                ("load(iter with '' items)", lambda: simfile.load(with_empties(), strict=strict), text, "auto"),
            ]
            # strict is the second positional parameter of load, loads and open
            entries += [
                ("loads(text, strict) positional", lambda: simfile.loads(text, strict), text, "auto"),
                ("load(StringIO, strict) positional", lambda: simfile.load(io.StringIO(text), strict), text, "auto"),
                ("open(x.txt, strict) positional", lambda: simfile.open(paths["x.txt"], strict), ftext, "auto"),
                ("open(x.sm, strict) positional", lambda: simfile.open(paths["x.sm"], strict), ftext, "sm"),
            ]
            if strict:
                # the documented default is strict parsing: the same calls without the argument
                entries += [
                    ("loads(default)", lambda: simfile.loads(text), text, "auto"),
                    ("load(StringIO, default)", lambda: simfile.load(io.StringIO(text)), text, "auto"),
                    ("SMSimfile(string, default)", lambda: SMSimfile(string=text), text, "sm"),
                    ("SSCSimfile(file=StringIO, default)", lambda: SSCSimfile(file=io.StringIO(text)), text, "ssc"),
                    ("open(x.txt, default)", lambda: simfile.open(paths["x.txt"]), ftext, "auto"),
                    ("open(x.ssc, default)", lambda: simfile.open(paths["x.ssc"]), ftext, "ssc"),
                    ("open_with_detected_encoding(x.sm, default)", lambda: simfile.open_with_detected_encoding(paths["x.sm"])[0], ftext, "sm"),
                ]
            for name in FILE_NAMES:
                low = name.lower()
                fmt = "ssc" if low.endswith(".ssc") else ("sm" if low.endswith(".sm") else "auto")
                if fmt == "auto":
                    ctx.feat("file_other_suffix")

                def via_load(p=paths[name]):
                    with open(p, encoding="utf-8") as f:
                        return simfile.load(f, strict=strict)

                entries.append((f"load(open({name}))", via_load, ftext, fmt))
                entries.append((f"open({name})", lambda p=paths[name]: simfile.open(p, strict=strict), ftext, fmt))

            def real_file(cls, p=paths["x.txt"]):
                with open(p, encoding="utf-8") as f:
                    return cls(file=f, strict=strict)

            # the same through an in-memory PyFilesystem (opens with newline='': no newline translation)
            for name in ("x.ssc", "y.SM", "z.txt"):
                low = name.lower()
                fmt = "ssc" if low.endswith(".ssc") else ("sm" if low.endswith(".sm") else "auto")
                mp = "/" + name

                def via_mem_load(mp=mp):
                    with mem.open(mp, "r", encoding="utf-8") as f:
                        return simfile.load(f, strict=strict)

                entries.append((f"load(memoryfs.open({name}))", via_mem_load, text, fmt))
                entries.append((f"open({name}, filesystem=memoryfs)", lambda mp=mp: simfile.open(mp, strict=strict, filesystem=mem), text, fmt))
            entries.append(("SMSimfile(file=real file)", lambda: real_file(SMSimfile), ftext, "sm"))
            entries.append(("SSCSimfile(file=real file)", lambda: real_file(SSCSimfile), ftext, "ssc"))

            for label, fn, t, fmt in entries:
                ctx.mon("entry_point")
                want = exp(t, fmt)
                got = norm(call(fn))
                ctx.outcome(f"{'strict' if strict else 'lenient'}:{want[0] if want[0] == 'ok' else want[1]}")
                if got != want:
                    ctx.violation(f"entry:{label.split('(')[0]}:{_cls(want)}-vs-{_cls(got)}:{'strict' if strict else 'lenient'}",
                                  {"entry_point": label, "strict": strict, "want": repr(want)[:600], "got": repr(got)[:600], "text": text[:500]})

        if kind == "gen":
            construction_oracle(ctx, case, text, ftext)
    finally:
        shutil.rmtree(tmp, ignore_errors=True)


def _cls(x):
    return x[1] if x[0] == "raise" else "ok-" + str(x[1])


def observe_features(ctx, segs, params, case):
    keys = [k for k, _ in params]
    if any(k != k.upper() for k in keys):
        ctx.feat("lower_case_key")
    for k, c in params:
        if k.upper() == "NOTES" and len(c) >= 6 and any(x != x.strip() and x.strip(" \t\r\n\x0b\x0c") != x.strip() for x in c[:6]):
            ctx.feat("sm_chart_field_framed_by_a_non_ascii_blank")
    if any(ord(ch) > 127 and ch.upper().isascii() for k in keys for ch in k):
        ctx.feat("non_ascii_letter_that_upper_cases_to_ascii_in_key")
    if keys and keys[0].upper() == "VERSION" and not keys[0].isascii():
        ctx.feat("version_key_with_dotless_i_or_long_s")
    if any(k != k.upper() and k.upper() in L.MULTI and len(c) >= 2 for k, c in params):
        ctx.feat("lower_case_multi_value_key")
    ups = [k.upper() for k in keys]
    if len(set(ups)) < len(ups):
        ctx.feat("duplicate_key")
    for i, k in enumerate(ups):
        if k in ("NOTES", "NOTES2") and i + 1 < len(ups) and ups[i + 1] not in ("NOTES", "NOTEDATA"):
            ctx.feat("param_after_notes")
        if k == "NOTES" and case["family"] == "sm" and len(params[i][1]) < 6:
            ctx.feat("short_chart")
    if any(len(c) == 0 for _, c in params):
        ctx.feat("key_only_param")
    seen_param = False
    for i, seg in enumerate(segs):
        if seg[0] == "rawparam":
            ctx.feat("version_key_spelled_with_escape")
        if seg[0] in ("param", "rawparam"):
            seen_param = True
            if seg[3] == "":
                ctx.feat("missing_semicolon")
        elif seg[0] == "stray":
            if not seen_param:
                ctx.feat("stray_before_first_param")
            elif any(s[0] in ("param", "rawparam") for s in segs[i + 1:]):
                ctx.feat("stray_between")
            else:
                ctx.feat("stray_after")
        elif seg[0] == "blank" and "﻿" in seg[1]:
            ctx.feat("bom")
    if case.get("crlf"):
        ctx.feat("crlf")
    if keys and keys[0].upper() == "VERSION" and keys[0] != "VERSION":
        ctx.feat("version_mixed_case")
    pre = 0
    for seg in segs:
        if seg[0] in ("param", "rawparam"):
            if seg[1].upper() == "VERSION" and pre > 4096:
                ctx.feat("long_preamble_before_version")
            break
        pre += len(seg[1]) + 2


def construction_oracle(ctx, case, text, ftext):
    """Second, tokenizer-independent oracle from the generator's knowledge of the segments."""
    import simfile

    segs = case["segments"]
    params = G.expected_params(segs)
    tok = list(L.tokenizer_params(text, False))
    if tok != params:
        ctx.skip("generator and tokenizer disagree on the parameters (generator artefact, not judged)")
        return
    ctx.mon("construction_oracle")
    # lenient load == strict load of the text with stray segments removed
    stripped = G.render(G.strip_stray(segs))
    ctx.mon("lenient_equals_stripped")
    a = norm(call(lambda: simfile.loads(text, strict=False)))
    b = norm(call(lambda: simfile.loads(stripped, strict=True)))
    if a != b:
        ctx.violation("lenient:differs-from-strict-load-of-stripped-text", {"lenient": repr(a)[:500], "stripped_strict": repr(b)[:500], "text": text[:500]})
    if a[0] == "raise" and a[1] == "MSDParserError":
        ctx.violation("lenient:rejected-for-stray-text", {"text": text[:500]})
    # strict rejects with the parser's error exactly when non-blank stray text lies between parameters,
    # unless an earlier short chart raises ValueError first
    ctx.mon("strict_rejects_iff_stray")
    s = call(lambda: simfile.loads(text, strict=True))
    stray = G.has_nonblank_stray(segs)
    if s == ("raise", "MSDParserError") and not stray:
        ctx.violation("strict:rejected-without-stray-text", {"text": text[:500]})
    if stray and s[0] == "ok":
        ctx.violation("strict:accepted-text-with-stray-text", {"text": text[:500]})


def check_smchart(ctx, case):
    from simfile.sm import SMChart

    comps = case["comps"]
    ctx.begin(case, nontrivial=len(comps) >= 6)
    ctx.mon("chart_from_msd")
    if len(comps) < 6:
        want = ("raise", "ValueError")
    else:
        want = ("ok", [c.strip() for c in comps[:6]], list(comps[6:]), len(comps) > 6)
    variants = [("from_msd", lambda: SMChart.from_msd(list(comps))), ("from_msd(tuple)", lambda: SMChart.from_msd(tuple(comps)))]
    if not any(":" in c for c in comps):
        variants.append(("from_str", lambda: SMChart.from_str(":".join(comps))))
    for label, fn in variants:
        if label == "from_str" and not comps:
            continue  # "".split(":") is one empty component: still fewer than six
        try:
            c = fn()
            got = ("ok", [c.stepstype, c.description, c.difficulty, c.meter, c.radarvalues, c.notes],
                   list(c.extradata or []), c.extradata is not None)
            if type(c) is not SMChart or list(c.keys()) != ["STEPSTYPE", "DESCRIPTION", "DIFFICULTY", "METER", "RADARVALUES", "NOTES"]:
                got = ("ok-but-wrong-shape", type(c).__name__, list(c.keys()))
        except Exception as e:
            got = ("raise", type(e).__name__)
        if got != want:
            ctx.violation(f"smchart:{label}", {"comps": comps, "want": repr(want)[:400], "got": repr(got)[:400]})


def check_sscchart(ctx, case):
    from simfile.ssc import SSCChart

    segs = case["segments"]
    ps = [s for s in segs if s[0] == "param"]
    for i, s in enumerate(ps):
        if s[1].upper() in ("NOTES", "NOTES2") and not s[2] and i + 1 < len(ps):
            ctx.feat("key_only_notes_then_more_parameters")
    text = G.render(segs)
    ctx.begin(case, nontrivial=len(segs) > 3)
    if _ends_with_odd_backslashes(text):
        ctx.skip("text ends in an unpaired backslash")
        return
    for strict in (True, False):
        ctx.mon("entry_point")
        want = norm_chart(L.expect(text, "sscchart", strict))
        got = norm_chart(call(lambda: SSCChart.from_str(text, strict=strict) if not strict else
                              (SSCChart.from_str(text) if ctx.evaluations % 2 else SSCChart.from_str(text, strict=True))))
        if got != want:
            ctx.violation(f"entry:SSCChart.from_str:{_cls(want)}-vs-{_cls(got)}:{'strict' if strict else 'lenient'}",
                          {"strict": strict, "want": repr(want)[:500], "got": repr(got)[:500], "text": text[:500]})


def norm_chart(exp):
    if exp[0] != "ok":
        return exp
    return (exp[0], exp[1], [(k, ("" if (k in L.MULTI and v is None) else v)) for k, v in exp[2]], None)


def _probe_trailing_backslash(ctx):
    import simfile

    try:
        simfile.loads("#TITLE:x\\")
    except AssertionError:
        return "AssertionError from msdparser's lexer"
    except Exception as e:
        return f"{type(e).__name__}"
    return None


PROBES = {
    "msd-trailing-backslash": (_probe_trailing_backslash, "text '#TITLE:x\\' (ends in an unpaired backslash): msdparser fails an internal assertion instead of parsing or raising MSDParserError"),
}

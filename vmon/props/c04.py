"""C04 -- Load, save, load loses nothing; a second save changes nothing."""
from ..gen import msdtext as G
from ..gen import values as V
from ..ref import dictmodel as M
from . import c03

LEVEL = "exploration"
DESIGN_REF = "5/C04"
TECHNIQUE = "runtime round-trip monitor on the real loader and serializer: load -> str -> strict load -> str over generated messy texts and mutated corpus files, both formats, both strictness values"
LEVEL_TEXT = (
    "Every generated or mutated text that loads (strict or lenient; auto-detected and forced to each format) is "
    "serialized, strictly re-loaded in the same format and serialized again: serialization must not raise, the "
    "re-loaded simfile must have the same properties in order and the same charts (SSC note data moved last), and "
    "the second text must equal the first byte for byte. Held = held on the counted texts."
)
LEVEL_NOTE = "Loaded values that fall into msdparser's escaping gaps (the C01 exclusions) and SSC charts without note data are counted and skipped, as the quantifier says."
RULE = (
    "texts as for C03 (generated segment lists, corpus files with structural truncations/splices/duplications); "
    "each text x strict in {True, False} x format in {auto, SM, SSC}. Non-trivial when the loaded simfile has at "
    "least two properties or a chart; distinct by canonical JSON of the text."
    ' Round 6: lone surrogate code points in values and long note data; Unicode blanks around compact SM chart fields.'
)
EXHAUSTIVE_PART = "thorough: every truncation of the five corpus files at every structural boundary (#, :, ;, line break; before and after it)"
ASSUMPTIONS = ["msdparser.parse_msd", "the syntactic gap guard is a superset of msdparser's escaping failures"]
MONITORS = ["serialize_loaded", "reload_equal", "second_save_identical"]
REQUIRED = ["key_only_loaded", "lower_case_key", "duplicate_key", "param_after_notes", "lenient_with_stray",
            "chart_both_notes_and_notes2", "corpus_mutation", "sm_chart_loaded", "ssc_chart_loaded", "sm_backslash_without_other_meta",
            "ssc_version_not_first", "key_only_multi_value_in_chart", "sm_twin_charts_differing_in_extradata",
            "double_slash_across_a_4096_block_boundary_of_a_chart_value", "lone_surrogate_in_a_value",
            "more_than_256_charts", "charts_but_no_header_property"]


def anchors():
    from ..core import pick

    return pick(
        "simfile.base:BaseSimfile.serialize",
        "simfile.sm:SMChart.serialize",
        "simfile.ssc:SSCChart.serialize",
        "simfile.sm:SMSimfile._parse",
        "simfile.ssc:SSCSimfile._parse",
    )


def cases(ctx):
    rng = ctx.rng
    n = ctx.split(2500 if ctx.tier == "quick" else 16 * 25000)
    corpus = c03.corpus_texts()
    if ctx.shard == 0:
        for name, text in corpus:
            yield {"kind": "corpus", "name": name, "text": text}
    if ctx.tier == "thorough":
        # every truncation of every corpus file at a structural boundary ('#', ':', ';', line break), before and after it
        k = 0
        for name, text in corpus:
            for pos, ch in enumerate(text):
                if ch in "#:;\n":
                    for cut in (pos, pos + 1):
                        if ctx.mine(k):
                            t = text[:cut]
                            if c03._ends_with_odd_backslashes(t):
                                t += "x"
                            yield {"kind": "corpus", "name": name, "text": t, "truncated_at": cut}
                        k += 1
        ctx.exhaustive = True
    for i in range(n):
        if i % 6 == 5:
            name, text = rng.choice(corpus)
            t = c03.mutate_corpus(rng, text)
            if c03._ends_with_odd_backslashes(t):
                t += "x"
            yield {"kind": "corpus", "name": name, "text": t}
        else:
            case = dict(G.gen_text(rng), kind="gen")
            if rng.random() < 0.25:
                # a chart carrying both NOTES and NOTES2
                segs = case["segments"]
                idx = [j for j, s in enumerate(segs) if s[0] == "param" and s[1].upper() in ("NOTES", "NOTES2") and case["family"] == "ssc"]
                if idx:
                    j = rng.choice(idx)
                    other = "NOTES2" if segs[j][1].upper() == "NOTES" else "NOTES"
                    segs.insert(j + rng.choice([0, 1]), ["param", other, ["0001\n"], ";"])
            if rng.random() < 0.05:
                # text as it comes out of a file read with errors='surrogateescape': a lone surrogate code point in a value,
                # a key or (long or short) note data -- a str like any other for the parser and the serializer
                sur = rng.choice(["\udc80", "\udcff", "\ud800"])
                ps = [s for s in case["segments"] if s[0] == "param" and s[2]]
                if ps:
                    s = rng.choice(ps)
                    j = rng.randrange(len(s[2]))
                    filler = "0000\n" * rng.choice([0, 0, 500, 2000])
                    s[2][j] = filler + s[2][j] + sur + rng.choice(["", "x"])
                    case["lone_surrogate"] = True
            yield case


def state(obj):
    from simfile.sm import SMSimfile

    if type(obj) is SMSimfile:
        return (list(obj.items()),
                [([c.stepstype, c.description, c.difficulty, c.meter, c.radarvalues, c.notes], list(c.extradata or [])) for c in obj.charts])
    charts = []
    for c in obj.charts:
        nk = "NOTES2" if "NOTES" not in c and "NOTES2" in c else "NOTES"
        it = [(k, v) for k, v in c.items() if k != nk]
        if nk in c:
            it.append((nk, c[nk]))
        charts.append(it)
    return (list(obj.items()), charts)


def out_of_domain(obj):
    from simfile.sm import SMSimfile

    for k, v in obj.items():
        if V.in_gap(M.param_components(k, v)):
            return "loaded property in msdparser's escaping gap"
    for c in obj.charts:
        if type(obj) is SMSimfile:
            if V.in_gap(M.smchart_components([c.stepstype, c.description, c.difficulty, c.meter, c.radarvalues, c.notes], c.extradata)):
                return "loaded SM chart in msdparser's escaping gap"
        else:
            if "NOTES" not in c and "NOTES2" not in c:
                return "SSC chart without note data"
            for k, v in c.items():
                if V.in_gap(M.param_components(k, v)):
                    return "loaded SSC chart property in msdparser's escaping gap"
    return None


def check(ctx, case):
    import simfile
    from simfile.sm import SMSimfile
    from simfile.ssc import SSCSimfile

    text = case["text"] if case["kind"] == "corpus" else G.render(case["segments"])
    if case.get("lone_surrogate"):
        ctx.feat("lone_surrogate_in_a_value")
    if c03._ends_with_odd_backslashes(text):
        ctx.begin(case, nontrivial=False)
        ctx.skip("text ends in an unpaired backslash (known finding)")
        return
    first = True
    if case["kind"] == "corpus":
        ctx.feat("corpus_mutation")
    for strict in (True, False):
        for fmt, loader in (("auto", lambda: simfile.loads(text, strict=strict)),
                            ("sm", lambda: SMSimfile(string=text, strict=strict)),
                            ("ssc", lambda: SSCSimfile(string=text, strict=strict))):
            try:
                a = loader()
            except Exception as e:
                ctx.outcome(f"load-raised:{type(e).__name__}")
                continue
            ctx.outcome("loaded")
            items = list(a.items())
            if first:
                ctx.begin(case, nontrivial=len(items) >= 2 or len(a.charts) > 0, sample={"text": text[:400], "kind": case["kind"]})
                first = False
            why = out_of_domain(a)
            if why:
                ctx.skip(why)
                continue
            observe(ctx, a, text, strict, case)
            cls = type(a)
            ctx.mon("serialize_loaded")
            sa = state(a)  # as loaded, before any serialization
            try:
                t1 = str(a)
            except Exception as e:
                ctx.violation(f"save:serialize-raised:{type(e).__name__}", {"format": fmt, "strict": strict, "exc": repr(e), "text": text[:500]})
                continue
            ctx.mon("reload_equal")
            try:
                b = cls(string=t1)
            except Exception as e:
                ctx.violation(f"reload:raised:{type(e).__name__}", {"format": fmt, "strict": strict, "exc": repr(e), "saved": t1[:500]})
                continue
            if state(a) != sa:
                ctx.violation(f"save:serializing-modified-the-loaded-simfile:{cls.__name__}", {"format": fmt, "before": repr(sa)[:500], "after": repr(state(a))[:500]})
                continue
            sb = state(b)
            if sa != sb:
                ctx.violation(f"reload:differs:{cls.__name__}", {"format": fmt, "strict": strict, "loaded": repr(sa)[:600], "reloaded": repr(sb)[:600], "text": text[:400]})
                continue
            ctx.mon("second_save_identical")
            t2 = str(b)
            if t2 != t1:
                ctx.violation(f"second-save:differs:{cls.__name__}", {"format": fmt, "first": t1[:400], "second": t2[:400]})
                continue
            t3 = str(cls(string=t2))
            if t3 != t2:
                ctx.violation(f"third-save:differs:{cls.__name__}", {"format": fmt, "second": t2[:400], "third": t3[:400]})
    if first:
        ctx.begin(case, nontrivial=False)


def observe(ctx, a, text, strict, case):
    from simfile.sm import SMSimfile

    vals = [v for _, v in a.items()]
    if any(v is None for v in vals) or any(v is None for c in a.charts for v in c.values()):
        ctx.feat("key_only_loaded")
    if case["kind"] == "gen":
        params = G.expected_params(case["segments"])
        keys = [k for k, _ in params]
        if any(k != k.upper() for k in keys):
            ctx.feat("lower_case_key")
        ups = [k.upper() for k in keys]
        if len(set(ups)) < len(ups):
            ctx.feat("duplicate_key")
        for i, k in enumerate(ups):
            if k in ("NOTES", "NOTES2") and i + 1 < len(ups) and ups[i + 1] not in ("NOTES", "NOTEDATA"):
                ctx.feat("param_after_notes")
        if not strict and any(s[0] == "stray" for s in case["segments"]):
            ctx.feat("lenient_with_stray")
    if type(a) is not SMSimfile and "VERSION" in a and next(iter(a)) != "VERSION":
        ctx.feat("ssc_version_not_first")
    if type(a) is not SMSimfile and any(k in ("ATTACKS", "DISPLAYBPM") and v in ("", None) for c in a.charts for k, v in c.items()):
        ctx.feat("key_only_multi_value_in_chart")
    if a.charts:
        ctx.feat("sm_chart_loaded" if type(a) is SMSimfile else "ssc_chart_loaded")
    if len(a.charts) > 256:
        ctx.feat("more_than_256_charts")
    if a.charts and not len(a):
        ctx.feat("charts_but_no_header_property")
    if type(a) is SMSimfile:
        for i, c in enumerate(a.charts):
            for d in a.charts[:i]:
                if c == d and list(c.extradata or []) != list(d.extradata or []):
                    ctx.feat("sm_twin_charts_differing_in_extradata")
        for c in a.charts:
            comps = [c.stepstype, c.description, c.difficulty, c.meter, c.radarvalues, c.notes] + list(c.extradata or [])
            if any("\\" in x for x in comps) and not any(m in x for x in comps for m in (":", ";", "//")):
                ctx.feat("sm_backslash_without_other_meta")
    else:
        if any("NOTES" in c and "NOTES2" in c for c in a.charts):
            ctx.feat("chart_both_notes_and_notes2")
        for c in a.charts:
            for v in c.values():
                if v and len(v) > 4096 and any(v[i - 1:i + 1] == "//" for i in range(4096, len(v), 4096)):
                    ctx.feat("double_slash_across_a_4096_block_boundary_of_a_chart_value")
    for v in a.values():
        if v and len(v) > 4096 and any(v[i - 2:i + 2].strip("0y ab\n") for i in range(4096, len(v), 4096)):
            ctx.feat("meta_token_at_a_4096_block_boundary_of_a_simfile_value")

"""C05 -- mutate saves exactly the edited simfile, in the encoding it was read in."""
import codecs
import copy
import os
import random
import shutil
import tempfile

from .. import fsmon
from ..gen import edits as E
from . import c04

LEVEL = "exploration"
DESIGN_REF = "5/C05"
TECHNIQUE = "online trace checker (sys.addaudithook + recording PyFilesystem proxy) plus before/after tree snapshots around the real open_with_detected_encoding/mutate; reference detection by Python's codecs"
LEVEL_TEXT = (
    "File contents drawn from each code page's repertoire (all decodes-under classes of the default list are "
    "targeted) are opened and mutated on the native filesystem and on an in-memory PyFilesystem under every "
    "output/backup configuration, custom try_encodings and explicit encoding=; deep-copied snapshots of the yielded "
    "simfile at block entry and exit, byte snapshots of the directory tree and the recorded filesystem trace decide "
    "each clause (detected encoding, loaded content, output/backup/input bytes, no other file touched, refusal "
    "before any write, idempotent second mutate). Held = held on the counted configurations."
)
LEVEL_NOTE = "Python's codecs define 'decodes'; on the native filesystem text-mode newline translation is Python's; the recording proxies are thin subclasses of NativeOSFS / MemoryFS."
RULE = (
    "configuration = content (text in one code page's repertoire, or invalid bytes) x {.sm,.ssc} x output {none, "
    "other} x backup {none, other, =input, =output} x edit script x try_encodings (default, permutations, subsets) "
    "x {native, memory}. Non-trivial when the content holds a non-ASCII byte; distinct by canonical JSON."
    ' Round 5: input names with several dots and dotted directories, content of the other format than the extension, backup path a proper prefix of the input path.'
    ' Round 6: backup name equal to the input/output name up to letter case.'
    " Round 7: UTF-8 BOM with cp1252 tried first, edits of a chart's extra components only."
    ' Round 8: a stale file under the backup name.'
    ' Round 9: a text of exactly 65536 characters at block exit.'
)
ASSUMPTIONS = ["Python codecs", "MemoryFS is an honest in-memory filesystem"]
MONITORS = ["detection", "loaded_content", "mutate_output", "mutate_backup", "input_untouched", "no_other_file",
            "trace_write_opens", "clash_refused_before_io", "second_mutate_idempotent", "decode_error"]
REQUIRED = ["detected_utf-8", "detected_cp1252", "detected_cp932", "detected_cp949", "undecodable", "custom_try_encodings",
            "explicit_encoding", "native", "memory", "backup_and_output", "valid_under_several", "edit_changes_chart_in_place",
            "same_path_opened_twice_different_lists", "multibyte_char_straddles_1024", "output_and_backup_equal_input", "no_song_level_property",
            "file_ends_with_non_ascii_character", "input_path_with_several_dots", "several_dots_and_content_of_the_other_format",
            "backup_path_is_a_proper_prefix_of_the_input_path", "backup_name_differs_from_input_or_output_only_in_letter_case",
            "utf8_bom_and_utf8_not_first_in_the_tried_list", "only_extra_components_edited_with_backup",
            "stale_file_under_the_backup_name", "serialization_of_exactly_65536_characters"]

DEFAULT = ["utf-8", "cp1252", "cp932", "cp949"]
SAMPLES = {
    "utf-8": ["caf\u00e9", "\u732b\u934b", "\ud55c\uad6d\uc5b4", "\U0001f3b5 song", "\u00e9\u00e8\u00fc", "na\u00efve \u2603", "\u0416\u0443\u043a"],
    "cp1252": ["caf\u00e9", "\u20ac5", "na\u00efve", "\u00ff\u00fe", "Bj\u00f6rk", "\u0152uvre", "\u00c9t\u00e9 \u2122"],
    "cp932": ["\u30c6\u30b9\u30c8", "\u732b\u934b", "\uff76\uff80\uff76\uff85", "\u2460\u2461", "\u518d\u751f\u30cf\u30a4\u30d1\u30fc", "\u3042\u3044\u3046"],
    "cp949": ["\ud55c\uad6d\uc5b4", "\uac00\ub098\ub2e4", "\ub178\ub798 \uc81c\ubaa9", "\ud14c\uc2a4\ud2b8", "\uac10\uc0ac"],
}
INVALID = [b"\x80\x81", b"\x81\xff\x80", b"\xff\x81\x80\xa0\x81", b"\x81\x80\x90\x81"]


def anchors():
    from ..core import pick

    return pick(
        "simfile:open",
        "simfile:open_with_detected_encoding",
        "simfile:mutate",
    )


def ref_detect(data, tried):
    for enc in tried:
        try:
            data.decode(enc)
            return enc
        except UnicodeDecodeError:
            continue
    return None


def gen_content(rng, ext):
    enc_w = rng.choice(DEFAULT)
    pick = lambda: rng.choice(SAMPLES[enc_w]) + rng.choice(["", " x", ":y", " \\ z", "; w", "//c"])
    nl = rng.choice(["\n", "\n", "\r\n"])
    lines = []
    if ext == "ssc":
        lines.append("#VERSION:0.83;")
    lines.append(f"#TITLE:{_esc(pick())};")
    for k in rng.sample(["ARTIST", "SUBTITLE", "CREDIT", "GENRE", "MUSIC", "FOO"], rng.randint(0, 4)):
        lines.append(f"#{k}:{_esc(pick())};")
    lines.append("#OFFSET:0.000;")
    lines.append("#BPMS:0.000=120.000;")
    if rng.random() < 0.35:
        # a long run of multi-byte text: some character straddles byte offsets 1024, 2048, 4096, 8192
        unit = rng.choice(SAMPLES[enc_w]) + rng.choice(["", " ", "a"])
        lines.append(f"#LYRICS:{_esc(unit * rng.choice([120, 300, 700, 1500]))};")
    for _ in range(rng.choice([0, 1, 1, 2])):
        if ext == "ssc":
            lines.append(f"#NOTEDATA:;{nl}#STEPSTYPE:dance-single;{nl}#DESCRIPTION:{_esc(pick())};{nl}#DIFFICULTY:Hard;{nl}#METER:9;{nl}#NOTES:{nl}0000{nl}0001{nl}1000{nl}0000{nl};")
        else:
            lines.append(f"#NOTES:{nl}     dance-single:{nl}     {_esc(pick())}:{nl}     Hard:{nl}     9:{nl}     0,0:{nl}0000{nl}0001{nl}1000{nl}0000{nl};")
    text = nl.join(lines) + nl
    if enc_w == "utf-8" and rng.random() < 0.25:
        text = "\ufeff" + text   # a UTF-8 file that starts with EF BB BF: bytes like any other for the detection
    if rng.random() < 0.2:
        # the very last byte(s) of the file belong to a non-ASCII character: the last parameter has no ';'
        text = text + "#LAST:" + rng.choice(SAMPLES[enc_w])
    r = rng.random()
    if r < 0.04:
        text = ""                                                   # an empty file
    elif r < 0.08:
        text = f"// {pick()}{nl}{nl}"                              # comments and blank lines only
    elif r < 0.14 and any(l.startswith(("#NOTES", "#NOTEDATA")) for l in lines):
        text = nl.join(l for l in lines if l.startswith(("#NOTES", "#NOTEDATA"))) + nl   # charts only
    return enc_w, text


def _esc(s):
    return s.replace("\\", "\\\\").replace(":", "\\:").replace(";", "\\;").replace("//", "\\//")


def gen_script(rng, enc, kind, n_charts):
    """Edit script whose text stays encodable in `enc` and outside the msdparser gaps."""
    pool = SAMPLES.get(enc) or SAMPLES["utf-8"]
    if enc not in SAMPLES:
        pool = ["abc"]

    def v():
        return rng.choice(pool + ["plain", "a:b", "x;y", "back\\slash", "", "two\nlines"]) + rng.choice(["", "!", " 2"])

    ops = []
    for _ in range(rng.choice([0, 1, 2, 4, 8])):
        r = rng.random()
        if r < 0.4:
            ops.append(["set", rng.choice(["TITLE", "ARTIST", "NEWKEY", "GENRE", "ATTACKS"]), v()])
        elif r < 0.5:
            ops.append(["setattr", rng.choice(["title", "subtitle", "credit", "music"]), v()])
        elif r < 0.6:
            ops.append(["del?", rng.choice(["ARTIST", "CREDIT", "GENRE", "FOO"])])
        elif r < 0.7:
            ops.append(["set", rng.choice(["SUBTITLE", "KEYONLY"]), None])
        elif r < 0.74 and n_charts and kind == "sm":
            # only the extra NOTES components of a chart change (none of its six fields is assigned)
            ops.append(["cs_extra", rng.randrange(n_charts), [v().strip() or "x", "extra"]])
        elif r < 0.8 and n_charts:
            i = rng.randrange(n_charts)
            if kind == "sm":
                ops.append(["cs_attr", i, rng.choice(["description", "meter", "difficulty"]), v().strip()])
            else:
                ops.append(["cc_set", i, rng.choice(["DESCRIPTION", "METER", "CREDIT", "CHARTNAME"]), v()])
        elif r < 0.9:
            if kind == "sm":
                ops.append(["c_append", {"f": ["dance-single", v().strip(), "Easy", "3", "0,0", "0000\n0000\n0000\n0000"], "x": None, "via": "from_msd"}])
            else:
                ops.append(["c_append", {"items": [["STEPSTYPE", "dance-single"], ["DESCRIPTION", v()], ["NOTES", "0000\n0000\n0000\n0000\n"]]}])
            n_charts += 1
        elif n_charts >= 2:
            ops.append(["c_reverse"])
    return ops


def cases(ctx):
    rng = ctx.rng
    n = ctx.split(2500 if ctx.tier == "quick" else 16 * 6000)
    for i in range(n):
        ext = rng.choice(["sm", "ssc"])
        # the content usually is of the kind the extension promises; now and then it is the other kind (the extension decides)
        content_ext = ext if rng.random() < 0.85 else ("ssc" if ext == "sm" else "sm")
        if i % 12 == 11:
            content = {"invalid": rng.randrange(len(INVALID))}
            enc_w = None
        else:
            enc_w, text = gen_content(rng, content_ext)
            content = {"enc": enc_w, "text": text}
        in_name = rng.choice(["in.", "in.", "in.", "in.", "old_song.", "Song.v2.", "sub/in.", "pack.1/in.", "in.final.", "a.ssc.b.sm."]) + ext
        tried = rng.choice([None, None, None, "perm", "subset", "single"])
        if tried == "perm":
            tried = rng.sample(DEFAULT, 4)
        elif tried == "subset":
            tried = rng.sample(DEFAULT, rng.randint(1, 3))
        elif tried == "single":
            tried = [rng.choice(DEFAULT + ["cp437", "latin-1"])]
        yield {
            "ext": ext, "content": content, "tried": tried, "fs": rng.choice(["native", "memory"]),
            "output": rng.choice([None, None, "out." + ext, "sub/out." + ext]),
            "backup": rng.choice([None, None, "in." + ext + ".bak", "=input", "=output", "backup.old", "=prefix", "song." + ext, "=case", "=case"]),
            "in_name": in_name, "content_ext": content_ext,
            "seed": rng.getrandbits(32), "strict": rng.random() < 0.85,
        }


def expected_open(data, tried, world, cls, strict):
    """-> ("ok", encoding, state) or ("raise", exception class name): first encoding that decodes, then parse."""
    enc = ref_detect(data, tried)
    if enc is None:
        return ("raise", "UnicodeDecodeError")
    try:
        return ("ok", enc, c04.state(cls(string=translate(data.decode(enc), world), strict=strict)))
    except Exception as e:  # mojibake may not be valid MSD: the loader's own error is the expected outcome
        return ("raise", type(e).__name__)


def observed_open(fn):
    try:
        sf, enc = fn()
        return ("ok", enc, c04.state(sf)), sf
    except Exception as e:
        return ("raise", type(e).__name__), None


class World:
    """A scratch directory on one of the two filesystems."""

    def __init__(self, kind, rec):
        self.kind = kind
        self.rec = rec
        rec.enabled = False
        if kind == "native":
            self.root = tempfile.mkdtemp(prefix="vmon-c05-")
            self.fs = fsmon.make_native(rec)
            os.mkdir(os.path.join(self.root, "sub"))
            os.mkdir(os.path.join(self.root, "pack.1"))
        else:
            self.root = "/song"
            self.fs = fsmon.make_memory(rec)
            self.fs.makedirs("/song/sub")
            self.fs.makedirs("/song/pack.1")
        rec.enabled = True

    def path(self, name):
        return os.path.join(self.root, name) if self.kind == "native" else self.root + "/" + name

    def write(self, name, data):
        self.rec.enabled = False
        try:
            if self.kind == "native":
                with open(self.path(name), "wb") as f:
                    f.write(data)
            else:
                self.fs.writebytes(self.path(name), data)
        finally:
            self.rec.enabled = True

    def write_abs(self, path, data):
        self.rec.enabled = False
        try:
            if self.kind == "native":
                with open(path, "wb") as f:
                    f.write(data)
            else:
                self.fs.writebytes(path, data)
        finally:
            self.rec.enabled = True

    def snapshot(self):
        self.rec.enabled = False
        try:
            return fsmon.snapshot_native(self.root) if self.kind == "native" else fsmon.snapshot_memory(self.fs, self.root)
        finally:
            self.rec.enabled = True

    def rel(self, path):
        return os.path.relpath(path, self.root) if self.kind == "native" else path

    def close(self):
        if self.kind == "native":
            shutil.rmtree(self.root, ignore_errors=True)
        else:
            self.fs.close()


def translate(text, world):
    # native text mode applies universal newlines; MemoryFS opens with newline='' (no translation)
    return text.replace("\r\n", "\n").replace("\r", "\n") if world.kind == "native" else text


def check(ctx, case):
    import simfile
    from simfile.sm import SMSimfile
    from simfile.ssc import SSCSimfile

    rng = random.Random(case["seed"])
    ext = case["ext"]
    cls = SMSimfile if ext == "sm" else SSCSimfile
    content = case["content"]
    if "invalid" in content:
        data = b"#TITLE:" + INVALID[content["invalid"]] + b";\n"
    else:
        data = content["text"].encode(content["enc"])
    tried = case["tried"] or DEFAULT
    kw = {} if case["tried"] is None else {"try_encodings": list(case["tried"])}
    ctx.begin(case, nontrivial=any(b >= 0x80 for b in data))
    ctx.feat(case["fs"])
    if case["tried"] is not None:
        ctx.feat("custom_try_encodings")
    if "enc" in content and len(data) > 1025:
        try:
            data[:1024].decode(content["enc"])
        except UnicodeDecodeError:
            ctx.feat("multibyte_char_straddles_1024")
    if data and data[-1] >= 0x80:
        ctx.feat("file_ends_with_non_ascii_character")
    if data[:3] == b"\xef\xbb\xbf" and tried[0] != "utf-8" and "utf-8" in tried:
        ctx.feat("utf8_bom_and_utf8_not_first_in_the_tried_list")
    if case["output"] and case["backup"] == "=input":
        ctx.feat("output_and_backup_equal_input")
    decodes = [e for e in DEFAULT if ref_detect(data, [e])]
    ctx.outcomes["decodes_under:" + ("+".join(decodes) or "none")] += 1
    if len(decodes) > 1:
        ctx.feat("valid_under_several")

    rec = fsmon.Recorder()
    world = World(case["fs"], rec)
    audit = fsmon.AuditMonitor.get()
    try:
        in_name = case.get("in_name", "in." + ext)
        world.write(in_name, data)
        inp = world.path(in_name)
        if in_name.count(".") > 1:
            ctx.feat("input_path_with_several_dots")
            if case.get("content_ext", ext) != ext:
                ctx.feat("several_dots_and_content_of_the_other_format")
        want_enc = ref_detect(data, tried)
        fskw = dict(filesystem=world.fs)

        # ---- opening: detection + loaded content
        ctx.mon("detection")
        want = expected_open(data, tried, world, cls, case["strict"])
        got, sf = observed_open(lambda: simfile.open_with_detected_encoding(inp, strict=case["strict"], **kw, **fskw))
        if got != want:
            key = "detection:wrong-encoding-or-error" if got[:2] != want[:2] else "loaded:differs-from-parse-of-decoded-text"
            ctx.violation(key, {"tried": tried, "got": repr(got)[:400], "want": repr(want)[:400], "data": repr(data[:200])})
            return
        if sf is not None and type(sf) is not cls:
            ctx.violation("loaded:wrong-class", {"got": type(sf).__name__, "ext": ext})
            return
        if want_enc is None:
            ctx.mon("decode_error")
            ctx.feat("undecodable")
            # mutate must raise the same way and touch nothing
            before = world.snapshot()
            try:
                with simfile.mutate(inp, **kw, **fskw):
                    pass
                ctx.violation("decode-error:mutate-did-not-raise", {"data": repr(data[:100])})
            except UnicodeDecodeError:
                pass
            ctx.expect(world.snapshot() == before, "decode-error:files-changed")
            return
        ctx.mon("loaded_content")
        # simfile.open with an explicit encoding
        if rng.random() < 0.5:
            ctx.feat("explicit_encoding")
            e1 = rng.choice(DEFAULT)
            want1 = expected_open(data, [e1], world, cls, case["strict"])
            got1, _ = observed_open(lambda: (simfile.open(inp, strict=case["strict"], encoding=e1, **fskw), e1))
            if got1 != want1:
                ctx.violation("open:explicit-encoding", {"encoding": e1, "got": repr(got1)[:300], "want": repr(want1)[:300]})
        # the same path opened again with another list: the answer depends only on bytes and list
        if rng.random() < 0.5:
            ctx.feat("same_path_opened_twice_different_lists")
            t2 = rng.sample(DEFAULT, 4)
            want2 = expected_open(data, t2, world, cls, case["strict"])
            got2, _ = observed_open(lambda: simfile.open_with_detected_encoding(inp, try_encodings=t2, strict=case["strict"], **fskw))
            if got2 != want2:
                ctx.violation("detection:second-open-other-list", {"tried": t2, "got": repr(got2)[:300], "want": repr(want2)[:300]})
        if want[0] != "ok":
            ctx.skip("decoded text is not valid MSD (mojibake): the loader's error is the expected outcome; no mutate")
            return
        if not want[2][0]:
            ctx.feat("no_song_level_property")
        ctx.feat("detected_" + want_enc)

        # ---- mutate
        out_name, bak_name = case["output"], case["backup"]
        out_path = world.path(out_name) if out_name else None
        if bak_name == "=input":
            bak_path = inp
        elif bak_name == "=output":
            bak_path = out_path if out_path else inp
        elif bak_name == "=case":
            # another file on both filesystems: the input (or output) name in another letter case
            base = out_path if (out_path and rng.random() < 0.5) else inp
            head, sep, tail = base.rpartition("/")
            bak_path = head + sep + tail.swapcase()
            ctx.feat("backup_name_differs_from_input_or_output_only_in_letter_case")
        elif bak_name == "=prefix":
            # a different file whose path is a proper prefix (so a substring) of the input path: 'dir/in' for 'dir/in.sm'
            bak_path = inp[: -rng.choice([1, len(ext), len(ext) + 1])]
            ctx.feat("backup_path_is_a_proper_prefix_of_the_input_path")
        else:
            bak_path = world.path(bak_name) if bak_name else None
        clash = bak_path is not None and bak_path in (inp, out_path)
        if bak_path and not clash and rng.random() < 0.4:
            # something is already there under the backup name (an older backup): it is replaced by the new one
            world.write_abs(bak_path, b"#TITLE:stale backup of an earlier run;\n")
            ctx.feat("stale_file_under_the_backup_name")
        script = gen_script(rng, want_enc, ext, len(sf.charts))
        before = world.snapshot()
        rec.log.clear()
        rec.n = 0
        snaps = {}
        if case["fs"] == "native":
            audit.start(world.root)
        err = None
        try:
            mkw = dict(kw)
            if not case["strict"] or rng.random() < 0.5:
                mkw["strict"] = case["strict"]  # otherwise rely on the documented default (strict)
            if out_path or rng.random() < 0.5:
                mkw["output_filename"] = out_path
            if bak_path or rng.random() < 0.5:
                mkw["backup_filename"] = bak_path
            with simfile.mutate(inp, **mkw, **fskw) as s:
                snaps["S0"] = copy.deepcopy(s)
                for op in script:
                    if op[0] == "del?":
                        if op[1] in s:
                            del s[op[1]]
                    else:
                        E.apply_real(s, op, [], ext)
                    if op[0] in ("cs_attr", "cc_set"):
                        ctx.feat("edit_changes_chart_in_place")
                    if op[0] == "cs_extra" and bak_path:
                        ctx.feat("only_extra_components_edited_with_backup")
                if case["seed"] % 16 == 3:
                    # the text written at block exit is exactly 65536 characters long
                    s["PAD"] = ""
                    n0 = len(str(s))
                    if n0 < 65536:
                        s["PAD"] = "x" * (65536 - n0)
                        if len(str(s)) == 65536:
                            ctx.feat("serialization_of_exactly_65536_characters")
                snaps["S1"] = copy.deepcopy(s)
        except Exception as e:
            err = e
        events = audit.stop() if case["fs"] == "native" else []
        trace = list(rec.log)
        after = world.snapshot()
        if clash:
            ctx.mon("clash_refused_before_io")
            ok = isinstance(err, ValueError) and after == before and not [t for t in trace if t[0] is not None] and not events
            ctx.expect(ok, "clash:not-refused-before-any-io", err=repr(err), trace=repr(trace)[:300], audit=repr(events)[:300])
            return
        if err is not None:
            ctx.violation(f"mutate:raised:{type(err).__name__}", {"exc": repr(err), "script": script, "enc": want_enc})
            return
        if out_path and bak_path:
            ctx.feat("backup_and_output")
        target = out_path or inp
        rel = world.rel
        # output
        ctx.mon("mutate_output")
        odata = after.get(rel(target))
        try:
            otext = translate(odata.decode(want_enc), world)
            oparsed = cls(string=otext)
            ok = c04.state(oparsed) == c04.state(snaps["S1"])
        except Exception as e:
            ok, oparsed = False, repr(e)
        if not ok:
            ctx.violation("output:does-not-parse-to-simfile-at-exit", {"enc": want_enc, "script": script, "output": repr(odata)[:300],
                                                                         "parsed": repr(oparsed)[:200], "want": repr(c04.state(snaps["S1"]))[:300]})
        # backup
        if bak_path:
            ctx.mon("mutate_backup")
            bdata = after.get(rel(bak_path))
            try:
                ok = c04.state(cls(string=translate(bdata.decode(want_enc), world))) == c04.state(snaps["S0"])
            except Exception:
                ok = False
            if not ok:
                ctx.violation("backup:does-not-parse-to-simfile-at-entry", {"enc": want_enc, "backup": repr(bdata)[:300], "script": script})
        # input untouched
        if out_path:
            ctx.mon("input_untouched")
            ctx.expect(after.get(rel(inp)) == data, "input:changed-although-output-name-given")
        # nothing else
        ctx.mon("no_other_file")
        allowed = {rel(target)} | ({rel(bak_path)} if bak_path else set())
        changed = {k for k in set(before) | set(after) if before.get(k) != after.get(k)}
        ctx.expect(changed <= allowed, "side-effect:other-file-created-or-changed", changed=sorted(changed), allowed=sorted(allowed))
        # online trace
        ctx.mon("trace_write_opens")
        wopens = [(t[2], t[3]["encoding"]) for t in trace if t[1] == "open-w"]
        want_w = ([(bak_path, want_enc)] if bak_path else []) + [(target, want_enc)]
        ctx.expect(wopens == want_w, "trace:write-opens", got=wopens, want=want_w)
        if case["fs"] == "native":
            aw = [e[1] for e in events if e[0] != "open-r"]
            ctx.expect(sorted(set(aw)) == sorted({p for p, _ in want_w}), "trace:audit-write-events", got=events[:20], want=want_w)
        ctx.notes.setdefault("sample_trace", [list(map(str, t)) for t in trace][:12])

        # ---- idempotence of a no-op mutate on the written file
        ctx.mon("second_mutate_idempotent")
        try:
            _, enc2 = simfile.open_with_detected_encoding(target, strict=case["strict"], **kw, **fskw)
        except Exception:
            # the new bytes may decode under an earlier encoding of the list (mojibake, possibly not even
            # valid MSD): the file is then not "read in the same encoding" and the clause does not apply
            enc2 = None
        if enc2 != want_enc:
            ctx.skip("second mutate: file is read in another encoding (not claimed)")
        else:
            with simfile.mutate(target, strict=case["strict"], **kw, **fskw):
                pass
            final = world.snapshot()
            ctx.expect(final.get(rel(target)) == odata, "second-mutate:bytes-changed", first=repr(odata)[:200], second=repr(final.get(rel(target)))[:200])
    finally:
        audit.stop()
        world.close()

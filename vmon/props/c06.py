"""C06 -- A failed or cancelled mutate never damages the input file."""
import copy
import sys

from .. import fsmon
from ..gen import edits as E
from . import c04, c05

LEVEL = "fault_enumeration"
DESIGN_REF = "5/C06"
TECHNIQUE = "fault enumeration on the real mutate(): exceptions of every class at every script position, unserializable/unencodable values at every position, failure of the k-th filesystem call for every k of the fault-free trace (PyFilesystem proxy), sys.monitoring LINE failpoints in the save sequence; before/after tree snapshots + trace decide"
LEVEL_TEXT = (
    "For each base configuration (format x backup x output x filesystem x detected encoding x size) the complete "
    "fault set is enumerated: every exception class at every position of the body, every unserializable or "
    "unencodable value at every property/chart position, the k-th filesystem call failing for every k observed in "
    "a fault-free run (also as a partial write), and - thorough tier - an injected exception at every executed "
    "line of the save sequence. After each run byte snapshots of the tree, the recorded trace and the escaping "
    "exception are judged. Exhaustive over the fault set of each base configuration."
)
LEVEL_NOTE = "The fault model is the set of points listed in the property; faults inside the operating system after a successful write() are outside it. Proxies are thin subclasses of NativeOSFS/MemoryFS; failpoints raise from a sys.monitoring LINE callback."
RULE = (
    "base configuration = {sm,ssc} x backup {no,yes} x output {same,other} x {native,memory} x detected encoding "
    "{utf-8,cp1252,cp932,cp949} x size {1,5,40 properties; 0-3 charts}; each evaluation is one (base configuration, "
    "fault) run. Non-trivial = every fault run (a fault-free control run per configuration is trivial); distinct by "
    "(configuration, fault)."
    ' Round 5: bad objects also as property key, chart key, extra component and note data.'
    " Round 6: caller's codec error handler (errors='replace'), a subclass of CancelMutation."
    " Round 7: the unencodable character exactly on offsets 65535/65536/131071 of the text; strict runs after errors='replace' runs."
    ' Round 8: charts-only inputs; a value with FF/VT/FS/GS/RS in every content.'
)
EXHAUSTIVE_PART = "per base configuration: all fault points of the classes body-exception, unserializable, unencodable, k-th filesystem call and LINE failpoints in the loading half and in the save sequence"
ASSUMPTIONS = ["faults occur only at the enumerated points", "MemoryFS/NativeOSFS subclasses behave like their parents"]
MONITORS = ["fault_free_control", "body_exception", "unserializable", "unencodable", "fs_call_fault", "line_failpoint", "line_failpoint_loading"]
REQUIRED = ["noop_body_with_backup_requested", "input_rewritten_while_the_block_was_open", "body_Chained", "stale_backup_of_same_size_present", "output_is_input_under_another_spelling", "body_UnicodeEncodeError", "backup_after_inplace_chart_edit", "body_KeyboardInterrupt", "body_SystemExit", "body_CancelMutation", "body_CancelSub", "codec_error_handler_given_by_the_caller", "unencodable_character_on_a_65536_seam_of_the_text", "strict_run_after_runs_with_a_lenient_error_handler", "body_StopIteration", "body_GeneratorExit",
            "unencodable_utf-8", "unencodable_cp1252", "unencodable_cp932", "unencodable_cp949", "fault_open_w_backup",
            "unencodable_object_in_key", "unencodable_object_in_chartkey", "unencodable_object_in_extradata", "unencodable_object_in_notes",
            "fault_open_w_output", "fault_write_backup", "fault_write_output", "fault_close", "partial_write",
            "backup_carried_disjunction", "ssc_chart_without_notes", "preexisting_output_file", "surrogate_on_utf8_inplace"]

ENCS = ["utf-8", "cp1252", "cp932", "cp949"]
SEED_TEXT = {"utf-8": "café 猫", "cp1252": "café", "cp932": "再生", "cp949": "한국어"}


class Custom(Exception):
    pass


def anchors():
    from ..core import pick

    return pick(
        "simfile:mutate",
        "simfile.base:BaseSimfile.serialize",
    )


def base_configs():
    out = []
    for ext in ("sm", "ssc"):
        for backup in (False, True):
            for output in (False, True, "alias"):
                for fs_ in ("native", "memory"):
                    for enc in ENCS:
                        for size in (1, 5, 40):
                            out.append({"ext": ext, "backup": backup, "output": output, "fs": fs_, "enc": enc, "size": size})
    return out


def cases(ctx):
    configs = base_configs()
    if ctx.tier == "quick":
        # every combination of format x backup x output x filesystem x detected encoding, one size each
        configs = [c for c in configs if (c["size"] == 5 and (c["output"] != "alias" or c["enc"] in ("utf-8", "cp1252")))
                   or (c["size"] == 1 and c["enc"] == "utf-8" and c["output"] != "alias")]
    # a body without any net change, with a backup requested, saving in place and to another file
    configs = configs + [dict(c, body="noop") for c in configs if c["backup"] and c["size"] == 5 and c["enc"] in ("utf-8", "cp932")
                         and c["output"] in (False, True)]
    # the caller's own error handler for the codec (errors='replace' is passed through to every open): text that only
    # encodes thanks to it must still never cost the input file
    configs = configs + [dict(c, errors="replace") for c in configs if c["size"] == 5 and c["enc"] in ("cp1252", "cp932")
                         and c["output"] in (False, True) and "body" not in c]
    configs = configs + [dict(c, charts_only=True) for c in configs if c["size"] == 5 and c["enc"] in ("utf-8", "cp1252")
                         and c["output"] in (False, True) and "body" not in c and "errors" not in c]
    # ... and the strict default again afterwards, in the same process and the same encodings
    configs = configs + [dict(c, again=True) for c in configs if c["size"] == 5 and c["enc"] in ("cp1252", "cp932")
                         and c["output"] is False and "body" not in c and "errors" not in c and c["fs"] == "memory"]
    # the input file is rewritten by someone else while the block is open (another program, a nested mutate of the same
    # file): a backup that was asked for must still hold the simfile the block STARTED from
    configs = configs + [dict(c, body="rewrites_input") for c in configs if c["backup"] and c["size"] == 5 and c["enc"] == "utf-8"
                         and c["output"] in (False, True) and "body" not in c and "errors" not in c
                         and "charts_only" not in c and "again" not in c]
    for i, c in enumerate(configs):
        if ctx.mine(i):
            yield {"base": c, "failpoints": "errors" not in c and "again" not in c, "deep": ctx.tier == "thorough"}
    ctx.exhaustive = True


def content_for(base):
    enc, ext, size = base["enc"], base["ext"], base["size"]
    t = SEED_TEXT[enc]
    lines = []
    if ext == "ssc":
        lines.append("#VERSION:0.83;")
    lines.append(f"#TITLE:{t};")
    # a value with the line separators that str.splitlines() knows besides LF: form feed, vertical tab, FS, GS, RS
    lines.append("#ODDSEP:a\x0cb\x0bc\x1cd\x1de\x1ef;")
    for i in range(size - 1):
        lines.append(f"#KEY{i}:{t} {i};")
    ncharts = {1: 0, 5: 1, 40: 3}[size]
    if base.get("charts_only"):
        lines = []     # a file made of charts only: no song-level parameter at all
        ncharts = 2
    for i in range(ncharts):
        if ext == "ssc":
            lines.append(f"#NOTEDATA:;\n#STEPSTYPE:dance-single;\n#DESCRIPTION:{t}{i};\n#DIFFICULTY:Hard;\n#METER:{i};\n#NOTES:\n0000\n0001\n1000\n0000\n;")
        else:
            lines.append(f"#NOTES:\n     dance-single:\n     {t}{i}:\n     Hard:\n     {i}:\n     0,0:\n0000\n0001\n1000\n0000\n;")
    return ("\n".join(lines) + "\n").encode(enc)


def unencodable_char(enc):
    for ch in ("\ud800", "猫", "€", "é", "\U0001f3b5"):
        try:
            ch.encode(enc)
        except UnicodeEncodeError:
            return ch
    return None


class BadReplace(str):
    def replace(self, *a, **k):
        raise RuntimeError("replace refused")


def body_script(ext):
    return [["set", "TITLE", "new title"], ["set", "ADDED", "x:y"], ["setattr", "artist", "someone"],
            ["chart_inplace"], ["set", "ADDED2", "z"], ["setattr", "title", "final"]]


def apply_body(s, op, ext):
    if op[0] == "chart_inplace":
        # edit the charts in place: an existing chart's field, and the list itself
        if s.charts:
            s.charts[0].meter = "77"
            s.charts[0].description = "edited in place"
        from simfile.sm import SMChart
        from simfile.ssc import SSCChart

        s.charts.append(SMChart.blank() if ext == "sm" else SSCChart.blank())
    else:
        E.apply_real(s, op, [], ext)


def enumerate_faults(base, n_props, n_charts, control_trace, line_events, line0_events=0, deep=True):
    faults = []
    script = body_script(base["ext"])
    for exc in ("ValueError", "KeyError", "Custom", "StopIteration", "KeyboardInterrupt", "SystemExit", "GeneratorExit", "CancelMutation", "CancelSub",
                "UnicodeEncodeError", "UnicodeDecodeError", "OSError", "AttributeError", "RuntimeError", "Chained", "InExcept"):
        for p in range(len(script) + 1):
            if not deep and exc not in ("ValueError", "KeyboardInterrupt", "CancelMutation", "CancelSub") and p not in (0, 3, len(script)):
                continue  # quick tier: every position for three classes, first / middle / last for the others
            faults.append({"class": "body", "exc": exc, "pos": p})
    for kind in ("int", "badreplace", "unencodable"):
        for i in range(n_props + 1):  # position n_props = a newly appended property
            faults.append({"class": kind, "where": "prop", "index": i})
        for i in range(n_charts):
            faults.append({"class": kind, "where": "chart", "index": i})
        # the same bad object where it is not a property VALUE: a property key, a chart's key (SSC) or extra
        # components (SM), the note data
        faults.append({"class": kind, "where": "key", "index": 0})
        for i in range(n_charts):
            faults.append({"class": kind, "where": "chartkey" if base["ext"] == "ssc" else "extradata", "index": i})
            faults.append({"class": kind, "where": "notes", "index": i})
    if base["ext"] == "ssc":
        for i in range(n_charts):
            faults.append({"class": "chart_without_notes", "where": "chart", "index": i})
        faults.append({"class": "chart_without_notes", "where": "newchart", "index": n_charts})
    if base["enc"] == "utf-8":
        faults.append({"class": "unencodable", "where": "prop", "index": 0, "lone": "\ud83d"})
    # the only unencodable character sits exactly on offset 65535 / 131071 / 65536 of the serialized text
    for off in (65535, 131071, 65536):
        faults.append({"class": "unencodable", "where": "seam", "index": off})
    for (k, kind, path, info) in control_trace:
        faults.append({"class": "fs", "k": k, "call": kind, "partial": False})
        if kind == "write":
            faults.append({"class": "fs", "k": k, "call": kind, "partial": True})
    for j in range(line_events):
        faults.append({"class": "line", "k": j})
    for j in range(line0_events):
        faults.append({"class": "line0", "k": j})
    return faults


def run(base, fault, want_lines=False):
    """One mutate run under one fault. -> dict with everything the judge needs."""
    import simfile

    rec = fsmon.Recorder(fail_at=fault["k"] if fault and fault["class"] == "fs" else None,
                         partial=bool(fault and fault.get("partial")))
    world = c05.World(base["fs"], rec)
    try:
        ext = base["ext"]
        data = content_for(base)
        world.write("in." + ext, data)
        world.write("bystander.txt", b"do not touch")
        pre_out = fault is not None and (hash(repr(fault)) % 3 == 0)
        same_size = fault is None or (hash(repr(fault)) % 3 == 1)
        if base["output"] is True and pre_out:
            world.write("out." + ext, b"#TITLE:old output;\n")
        if base["backup"] and pre_out:
            world.write("in.bak", b"old backup")
        elif base["backup"] and same_size:
            # a stale backup from "an earlier run": same byte size as the one about to be written, other content
            from simfile.sm import SMSimfile
            from simfile.ssc import SSCSimfile

            fresh = str((SMSimfile if ext == "sm" else SSCSimfile)(string=data.decode(base["enc"]))).encode(base["enc"])
            stale = fresh.replace(b"#TITLE:", b"#TITLF:", 1)
            if stale == fresh:
                stale = fresh.replace(b"dance-single", b"dance-singlf", 1)
            world.write("in.bak", stale)
        inp = world.path("in." + ext)
        if base["output"] == "alias":
            # the input file under another spelling of its path
            out = (world.root + "/./in." + ext) if base["fs"] == "memory" else __import__("os").path.join(world.root, ".", "in." + ext)
        else:
            out = world.path("out." + ext) if base["output"] else None
        bak = world.path("in.bak") if base["backup"] else None
        tried = [base["enc"]] + [e for e in ENCS if e != base["enc"]]
        before = world.snapshot()
        rec.log.clear()
        rec.n = 0
        raised = None
        thrown = None
        thrown_args = None
        snaps = {}
        script = body_script(ext)
        lines = None
        fp = None
        fp0 = None
        lines0 = None
        from ..failpoints import LineFailpoints

        if want_lines or (fault and fault["class"] == "line"):
            fp = LineFailpoints(save_codes(), fail_at=fault["k"] if fault and fault["class"] == "line" else None)
        if want_lines or (fault and fault["class"] == "line0"):
            # failpoints in the loading half: from the call of mutate() up to the first statement of the body
            fp0 = LineFailpoints(load_codes(), fail_at=fault["k"] if fault and fault["class"] == "line0" else None)
        try:
            if fp0:
                fp0.arm()
            ekw = {"errors": base["errors"]} if base.get("errors") else {}
            with simfile.mutate(inp, output_filename=out, backup_filename=bak, try_encodings=tried, filesystem=world.fs, **ekw) as s:
                if fp0:
                    lines0 = fp0.disarm()
                snaps["S0"] = copy.deepcopy(s)
                snaps["n_props"] = len(s)
                snaps["n_charts"] = len(s.charts)
                if base.get("body") == "rewrites_input" and (fault is None or fault["class"] in ("fs", "line")):
                    data = b"#SUBTITLE:rewritten while the block was open;\n" + data
                    world.write("in." + ext, data)
                    before = world.snapshot()
                if base.get("body") == "noop" and (fault is None or fault["class"] in ("fs", "line")):
                    s.title = s.title  # a body that makes no net change
                elif fault is None or fault["class"] in ("fs", "line"):
                    for op in script:
                        apply_body(s, op, ext)
                elif fault["class"] == "body":
                    for i, op in enumerate(script):
                        if i == fault["pos"]:
                            thrown = make_exc(fault["exc"])
                            thrown_args = (thrown.args, thrown.__cause__, thrown.__context__, thrown.__suppress_context__)
                            raise thrown
                        apply_body(s, op, ext)
                    thrown = make_exc(fault["exc"])
                    thrown_args = (thrown.args, thrown.__cause__, thrown.__context__, thrown.__suppress_context__)
                    raise thrown
                else:
                    apply_body(s, script[0], ext)
                    plant(s, fault, base)
                if fp:
                    fp.arm()
        except BaseException as e:  # noqa: B902 - the point is to see exactly what escapes
            raised = e
        finally:
            if fp:
                lines = fp.disarm()
            if fp0:
                lines0 = fp0.disarm()
        trace = list(rec.log)
        after = world.snapshot()
        return {"before": before, "after": after, "trace": trace, "raised": raised, "thrown": thrown, "snaps": snaps,
                "thrown_args": thrown_args,
                "data": data, "in": world.rel(inp), "out": (world.rel(out) if out and base["output"] is True else None),
                "bak": world.rel(bak) if bak else None, "same_size_backup": bool(base["backup"] and same_size and not pre_out),
                "fired": rec.fired, "lines": lines, "lines0": lines0, "world_kind": base["fs"], "enc": base["enc"]}
    finally:
        world.close()


def save_codes():
    """Failpoint targets for the save sequence: every function of the modules involved (public or private)."""
    from ..core import module_codes

    return module_codes("simfile", "simfile.base", "simfile.sm", "simfile.ssc", "simfile._private.serializable")


def load_codes():
    from ..core import module_codes

    return module_codes("simfile", "simfile.base", "simfile.sm", "simfile.ssc")


def make_exc(name):
    import simfile

    if name == "Chained":
        inner = KeyError("inner cause")
        e = ValueError("outer")
        e.__cause__ = inner          # what `raise ValueError("outer") from inner` sets
        e.__suppress_context__ = True
        return e
    if name == "InExcept":
        e = LookupError("raised while handling another exception")
        e.__context__ = OSError("the exception being handled")  # what raising inside an except block sets
        return e

    return {"ValueError": ValueError("boom"), "KeyError": KeyError("boom"), "Custom": Custom("boom"),
            "StopIteration": StopIteration("boom"), "KeyboardInterrupt": KeyboardInterrupt(), "SystemExit": SystemExit(3),
            "GeneratorExit": GeneratorExit(), "CancelMutation": simfile.CancelMutation(),
            "CancelSub": type("SkipThisSong", (simfile.CancelMutation,), {})("a caller's own subclass of CancelMutation"),
            "UnicodeEncodeError": UnicodeEncodeError("ascii", "caf\u00e9", 3, 4, "ordinal not in range(128)"),
            "UnicodeDecodeError": UnicodeDecodeError("utf-8", b"\xff", 0, 1, "invalid start byte"),
            "OSError": OSError(28, "No space left on device"), "AttributeError": AttributeError("boom"),
            "RuntimeError": RuntimeError("generator raised StopIteration")}[name]


def plant(s, fault, base):
    """Put an unserializable / unencodable value at the requested position."""
    cls, where, i = fault["class"], fault["where"], fault["index"]
    if cls == "int":
        bad = 5
    elif cls == "badreplace":
        bad = BadReplace("looks fine")
    elif cls == "unencodable":
        bad = "bad " + (fault.get("lone") or unencodable_char(base["enc"])) + " char"
    else:
        bad = None
    if cls == "chart_without_notes":
        from simfile.ssc import SSCChart

        if where == "newchart":
            c = SSCChart()
            c["STEPSTYPE"] = "dance-single"
            s.charts.append(c)
        else:
            c = s.charts[i]
            for k in ("NOTES", "NOTES2"):
                if k in c:
                    del c[k]
        return
    if where == "seam":
        ch = fault.get("lone") or unencodable_char(base["enc"])
        s["PAD"] = ""
        s.move_to_end("PAD", last=False)
        text = str(s)
        pos = text.index("#PAD:") + 5
        s["PAD"] = "x" * (i - pos) + ch + " tail"
        assert str(s)[i] == ch
        return
    if where == "key":
        s[bad if cls == "int" else type(bad)("K" + bad)] = "value under a bad key"
        return
    if where in ("chartkey", "extradata", "notes"):
        c = s.charts[i]
        if where == "chartkey":
            c[bad if cls == "int" else type(bad)("K" + bad)] = "value under a bad chart key"
        elif where == "extradata":
            c.extradata = ["fine", bad]
        elif base["ext"] == "sm":
            c.notes = bad
        else:
            c["NOTES"] = bad
        return
    if where == "prop":
        keys = list(s.keys())
        if i < len(keys):
            s[keys[i]] = bad
        else:
            s["APPENDED"] = bad
    else:
        c = s.charts[i]
        if base["ext"] == "sm":
            c.description = bad
        else:
            c["DESCRIPTION"] = bad


def parses_to(data, enc, world_kind, want, cls):
    try:
        text = data.decode(enc)
        if world_kind == "native":
            text = text.replace("\r\n", "\n")
        return c04.state(cls(string=text)) == c04.state(want)
    except Exception:
        return False


def check(ctx, case):
    from simfile.sm import SMSimfile
    from simfile.ssc import SSCSimfile

    base = case["base"]
    cls = SMSimfile if base["ext"] == "sm" else SSCSimfile
    if "only" in case:
        faults = [case["only"]]
    else:
        # fault-free control run: defines the fault set
        ctx.begin({"base": base, "fault": None}, nontrivial=False)
        ctx.mon("fault_free_control")
        ctl = run(base, None, want_lines=case.get("failpoints", False))
        if ctl["raised"] is not None:
            ctx.violation("control:fault-free-run-raised", {"base": base, "exc": repr(ctl["raised"])})
            return
        ok = ctl["after"].get(ctl["out"] or ctl["in"]) != ctl["before"].get(ctl["out"] or ctl["in"])
        if base.get("body") != "noop":
            ctx.expect(ok, "control:fault-free-run-wrote-nothing", base=base)
        else:
            ctx.feat("noop_body_with_backup_requested")
        if ctl["bak"]:
            ctx.expect(parses_to(ctl["after"].get(ctl["bak"], b""), ctl["enc"], ctl["world_kind"], ctl["snaps"]["S0"], cls),
                       "control:backup-does-not-parse-to-the-original", base=base)
        counted = [t for t in ctl["trace"] if t[0] is not None]
        ctx.notes.setdefault("fault_free_trace_sample", [[t[0], t[1], str(t[2])] for t in counted])
        n_lines = len(ctl["lines"] or []) if case.get("failpoints") else 0
        if case.get("failpoints"):
            ctx.notes.setdefault("line_events_sample", [list(x) for x in (ctl["lines"] or [])][:60])
        n_lines0 = len(ctl["lines0"] or []) if case.get("failpoints") else 0
        # the parse loop repeats the same lines for every parameter: the first events cover every distinct line
        n_lines0 = min(n_lines0, 60 if case.get("deep") else 40)
        faults = enumerate_faults(base, ctl["snaps"]["n_props"], ctl["snaps"]["n_charts"], counted, n_lines, n_lines0, deep=bool(case.get("deep")))
        ctx.features["fault_points_enumerated"] += len(faults)
    for fault in faults:
        one = {"base": base, "only": fault}
        ctx.begin(one, nontrivial=True, sample=one)
        r = run(base, fault)
        judge(ctx, base, fault, r, cls, one)


def judge(ctx, base, fault, r, cls, one):
    before, after = r["before"], r["after"]
    inp, out, bak = r["in"], r["out"], r["bak"]
    target = out or inp
    changed = sorted(k for k in set(before) | set(after) if before.get(k) != after.get(k))
    writes = [t for t in r["trace"] if t[1] in ("open-w", "write")]
    input_intact = after.get(inp) == r["data"]
    S0 = r["snaps"].get("S0")
    backup_ok = bool(bak) and after.get(bak) is not None and S0 is not None and \
        parses_to(after[bak], r["enc"], r["world_kind"], S0, cls) and before.get(bak) != after.get(bak)
    fc = fault["class"]
    if r.get("same_size_backup"):
        ctx.feat("stale_backup_of_same_size_present")
        # whenever the run got past the backup step, the backup must be the new one
        got_past = any(t[1] == "open-w" and not str(t[2]).endswith("in.bak") for t in r["trace"])
        if got_past and S0 is not None:
            ctx.expect(parses_to(after.get(bak, b""), r["enc"], r["world_kind"], S0, cls),
                       f"{fc}:stale-backup-left-in-place", **{"base": base, "fault": fault})
    if base["output"] == "alias":
        ctx.feat("output_is_input_under_another_spelling")
    if base.get("body") == "rewrites_input" and fc in ("fs", "line"):
        ctx.feat("input_rewritten_while_the_block_was_open")
    if bak and before.get(bak) != after.get(bak) and S0 is not None and len(S0.charts) > 0:
        ctx.feat("backup_after_inplace_chart_edit")
    detail = {"base": base, "fault": fault, "changed": changed, "raised": repr(r["raised"]), "trace": [[t[0], t[1], str(t[2])] for t in r["trace"] if t[0] is not None]}
    if out and before.get(out) is not None:
        ctx.feat("preexisting_output_file")

    if fc == "body":
        ctx.mon("body_exception")
        ctx.feat("body_" + fault["exc"])
        ctx.expect(not changed, "body-exception:files-changed", **detail)
        ctx.expect(not writes, "body-exception:write-events", **detail)
        if fault["exc"] in ("CancelMutation", "CancelSub"):
            ctx.expect(r["raised"] is None, f"body-exception:{fault['exc']}-not-swallowed", **detail)
        else:
            e = r["raised"]
            same = e is r["thrown"] and r.get("thrown_args") is not None and e.args == r["thrown_args"][0] \
                and e.__cause__ is r["thrown_args"][1] and e.__suppress_context__ == r["thrown_args"][3] \
                and (r["thrown_args"][2] is None or e.__context__ is r["thrown_args"][2])
            ctx.expect(same, f"body-exception:{fault['exc']}-not-propagated-unchanged", **detail)
        return

    if fc == "line0":
        ctx.mon("line_failpoint_loading")
        ctx.expect(not changed, "line0-fault:files-changed-by-a-failure-while-loading", **detail)
        ctx.expect(not writes, "line0-fault:write-events", **detail)
        # which exception type comes out of a failed load is not claimed, only that the block cannot have run
        ctx.expect(r["raised"] is not None and "S0" not in r["snaps"], "line0-fault:body-ran-although-loading-failed", **detail)
        return

    if fc in ("int", "badreplace", "chart_without_notes", "unencodable"):
        ctx.mon("unencodable" if fc == "unencodable" else "unserializable")
        if fault["where"] == "seam" and r["raised"] is not None:
            ctx.feat("unencodable_character_on_a_65536_seam_of_the_text")
        if base.get("again") and r["raised"] is not None:
            ctx.feat("strict_run_after_runs_with_a_lenient_error_handler")
        if fault["where"] in ("key", "chartkey", "extradata", "notes") and r["raised"] is not None:
            ctx.feat(f"{'unencodable' if fc == 'unencodable' else 'unserializable'}_object_in_{fault['where']}")
        if base.get("errors"):
            ctx.feat("codec_error_handler_given_by_the_caller")
        if fc == "unencodable":
            ctx.feat("unencodable_" + r["enc"])
            if fault.get("lone") and not base["output"]:
                ctx.feat("surrogate_on_utf8_inplace")
        if fc == "chart_without_notes":
            ctx.feat("ssc_chart_without_notes")
        if r["raised"] is None:
            # e.g. an int in an SM chart field is formatted by the serializer: nothing failed, nothing to judge
            ctx.skip(f"{fc} at {fault['where']}: the value turned out to be serializable (save succeeded)")
            return
        ctx.expect(input_intact, f"{fc}:input-file-damaged", **detail)
        if not input_intact:
            return
        # a requested backup that has been written must be complete
        if bak and before.get(bak) != after.get(bak):
            ctx.expect(backup_ok, f"{fc}:backup-written-but-incomplete", **detail)
        return

    if fc in ("fs", "line"):
        ctx.mon("fs_call_fault" if fc == "fs" else "line_failpoint")
        if fc == "fs":
            call = fault["call"]
            which = None
            if r["fired"]:
                p = str(r["fired"][2])
                which = "backup" if bak and p.endswith("in.bak") else ("output" if p.endswith(target.split("/")[-1].split("\\")[-1]) and call != "open-r" else "input")
            if call == "open-w":
                ctx.feat("fault_open_w_" + (which or "output"))
            elif call == "write":
                ctx.feat("fault_write_" + (which or "output"))
                if fault.get("partial"):
                    ctx.feat("partial_write")
            elif call == "close":
                ctx.feat("fault_close")
            if call.startswith("open"):
                ctx.expect(input_intact, "fs-fault:open-failed-but-input-damaged", **detail)
        if out:
            ctx.expect(input_intact, f"{fc}-fault:input-damaged-although-output-name-given", **detail)
        if not input_intact:
            # a write/close failure on the input itself: the original survives only through a requested backup
            if bak:
                ctx.feat("backup_carried_disjunction")
                ctx.expect(backup_ok, f"{fc}-fault:input-damaged-and-backup-not-complete", **detail)
            else:
                ctx.feat("input_lost_without_backup_requested(not claimed)")
        # a backup that has been written (file changed) and closed must be complete whenever the run got past it
        if bak and before.get(bak) != after.get(bak):
            past_backup = any(t[1] == "open-w" and not str(t[2]).endswith("in.bak") for t in r["trace"])
            if past_backup:
                ctx.expect(backup_ok, f"{fc}-fault:output-opened-before-backup-complete", **detail)
        # bystanders
        others = [k for k in changed if k not in (inp, out, bak)]
        ctx.expect(not others, f"{fc}-fault:other-file-changed", **detail)
        if fc == "line":
            # before the first write-open of the output the input must be intact
            opened_output = any(t[1] == "open-w" and not str(t[2]).endswith("in.bak") for t in r["trace"])
            if not opened_output:
                ctx.expect(input_intact, "line-fault:input-damaged-before-output-was-opened", **detail)

"""C07 -- Note data text decodes to exactly one correctly placed note per non-zero cell."""
import os
from fractions import Fraction

from ..core import api_call
from ..gen import notes as G

LEVEL = "exploration"
DESIGN_REF = "5/C07"
TECHNIQUE = "runtime oracle on the real NoteData/Note: expected notes computed from generated cells independently of the rendered text; operator monitor on note pairs"
LEVEL_TEXT = (
    "Generated well-formed note data (cells known by construction, rendered with blanks, blank lines, CRLF, "
    "keysound brackets, 1-3 players, 15 row counts) is decoded by the real NoteData and compared note by note "
    "with the cells; every comparison operator is checked against position order on sampled and same-position "
    "pairs; corpus charts are cross-checked with an independent cell scanner. Held = held on the counted texts."
)
LEVEL_NOTE = "Trusts the generator's own cell->text rendering (20 lines) and CPython str methods; corpus charts rely on an independent scanner in this module."
RULE = (
    "cases: generated texts (cells -> text with decorations) and every chart of the corpus; a case is "
    "non-trivial when it has at least 2 notes; distinct by canonical JSON of (text, expected notes)."
    ' Round 5: two passes over one object alive at once, advanced alternately.'
    ' Round 6: construction by keyword, sections of 257-330 measures, compact layout (separator on a row line).'
    ' Round 7: inexact beats of equal value built before decoding.'
    ' Round 8: keysound indices of 2^31 and more; compact layouts beginning with a blank whose first measure is one row.'
)
ASSUMPTIONS = ["the generator renders cells to text faithfully", "fractions.Fraction is exact"]
MONITORS = ["decode", "repeat_iteration", "interleaved_iteration", "ordering_ops", "str_identity", "columns", "via_chart"]
REQUIRED = ["measure_repeated_after_empty_measures", "odd_rows", "rows_192", "rows_above_192", "keysound_shifts_later_column", "three_players", "crlf",
            "same_position_pair", "cross_player_pair", "corpus_chart", "interleaved_passes_over_keysounded_rows",
            "constructed_by_keyword", "note_beyond_measure_256", "measure_separator_on_a_row_line",
            "inexact_beats_of_equal_value_built_before_decoding", "keysound_index_of_2_to_the_31_or_more",
            "leading_blank_and_a_one_row_first_measure_in_compact_layout"]


def anchors():
    from ..core import pick

    return pick(
        "simfile.notes:NoteData.__iter__",
        "simfile.notes:NoteData._iter_measure",
        "simfile.notes:NoteData._extract_keysound_indices",
        "simfile.notes:NoteData._get_columns",
        "simfile.notes:Note.__lt__",
        "simfile.notes:Note._comparable",
    )


def corpus_charts():
    """[(name, chart)] for every chart of every corpus file (loaded through the library)."""
    import simfile
    from ..core import REPO

    out = []
    for d in ("L9/L9.ssc", "Springtime/Springtime.ssc", "blank/blank.sm", "blank/blank.ssc", "nekonabe/nekonabe.sm"):
        p = os.path.join(REPO, "testdata", d)
        sf = simfile.open(p)
        for i, ch in enumerate(sf.charts):
            out.append((f"{d}#{i}", ch))
    return out


def scan_text(text):
    """Independent scanner: -> (columns, [(p, beat, col, char, ks)])."""
    out = []
    columns = None
    for p, section in enumerate(text.split("&")):
        for m, measure in enumerate(section.split(",")):
            rows = [l.strip() for l in measure.strip().splitlines()]
            R = len(rows)
            for r, row in enumerate(rows):
                c = 0
                i = 0
                while i < len(row):
                    ch = row[i]
                    i += 1
                    ks = None
                    if i < len(row) and row[i] == "[":
                        j = row.index("]", i)
                        ks = int(row[i + 1:j])
                        i = j + 1
                    if ch != "0":
                        out.append((p, Fraction(4 * m * R + 4 * r, R), c, ch, ks))
                    c += 1
                if columns is None:
                    columns = c
    return columns, out


def cases(ctx):
    rng = ctx.rng
    if ctx.shard == 0:
        for name, ch in corpus_charts():
            text = ch.notes
            cols, exp = scan_text(text)
            yield {"kind": "corpus", "name": name, "text": text, "columns": cols,
                   "expected": [[p, b.numerator, b.denominator, c, t, k] for p, b, c, t, k in exp]}
    if ctx.shard == 0:
        # compact layouts that begin with a blank and whose first measure is a single row with the separator on its line
        for lead in ("\n", "\t", " \n", "\r\n"):
            for cols in (1, 4, 6):
                first = [[["1" if c == 0 else "0", None] for c in range(cols)]]
                second = [[["M" if (c + r) % 3 == 0 else "0", None] for c in range(cols)] for r in range(rng.choice([1, 2, 4]))]
                cells = [[first, second]]
                row = lambda rw: "".join(ch for ch, _ in rw)
                text = lead + row(first[0]) + ",\n" + "\n".join(row(r) for r in second) + "\n"
                exp = G.expected_notes(cells)
                yield {"kind": "gen", "text": text, "columns": cols,
                       "expected": [[p, b.numerator, b.denominator, c, t_, k] for p, b, c, t_, k in exp], "rows": [1, len(second)]}
    n = ctx.split(2500 if ctx.tier == "quick" else 16 * 25000)
    for i in range(n):
        cells = G.gen_cells(rng)
        if i % 50 == 0:
            cells = G.gen_cells(rng, players=3)
        text = G.render_cells(rng, cells)
        exp = G.expected_notes(cells)
        yield {"kind": "gen", "text": text, "columns": len(cells[0][0][0]),
               "expected": [[p, b.numerator, b.denominator, c, t, k] for p, b, c, t, k in exp],
               "rows": sorted({len(mm) for pm in cells for mm in pm})}


def check(ctx, case):
    from simfile.notes import Note, NoteData, NoteType
    from simfile.timing import Beat

    text = case["text"]
    exp = case["expected"]
    ctx.begin(case, nontrivial=len(exp) >= 2, sample={k: case[k] for k in case if k != "expected"} | {"n_expected": len(exp), "first_expected": exp[:3]})
    if case["kind"] == "corpus":
        ctx.feat("corpus_chart")
    for R in case.get("rows", []):
        if R % 2 == 1 and R > 1:
            ctx.feat("odd_rows")
        if R == 192:
            ctx.feat("rows_192")
        if R > 192:
            ctx.feat("rows_above_192")
    if "\r\n" in text:
        ctx.feat("crlf")
    if case["kind"] == "gen":
        for section in text.split("&"):
            ms = [m.strip() for m in section.split(",")]
            for i, m in enumerate(ms):
                if any(ch not in "0\r\n \t" for ch in m) and m in ms[:i]:
                    j = len(ms[:i]) - 1 - ms[:i][::-1].index(m)
                    if j < i - 1 and all(all(ch in "0\r\n \t" for ch in x) for x in ms[j + 1:i]):
                        ctx.feat("measure_repeated_after_empty_measures")
    if exp and exp[-1][0] >= 2:
        ctx.feat("three_players")
    if any(e[5] is not None for e in exp):
        ctx.feat("keysounds")
        # a keysound bracket followed by a later non-zero cell in the same row
        seen = set()
        for e in exp:
            key = (e[0], e[1], e[2])
            if key in seen:
                ctx.feat("keysound_shifts_later_column")
                break
            if e[5] is not None:
                seen.add(key)

    # beats equal in value to the chart's beats are built first from floats and decimal strings (they snap to the
    # tick grid, as the timing engine does all the time): decoding must still give the exact row fractions
    from simfile.timing import Beat as _B

    offgrid = sorted({(e[1] % (4 * e[2]), e[2]) for e in exp if 48 % e[2]})[:12]
    for num, den in offgrid:
        _B(num / den)
        _B(str(num / den))
        _B(num, den) + 0
    if offgrid:
        ctx.feat("inexact_beats_of_equal_value_built_before_decoding")
    # the documented parameter name is part of the interface: every third chart is constructed by keyword
    if ctx.evaluations % 3 == 1:
        nd = api_call(ctx, "NoteData(source=)", NoteData, source=text)
        ctx.feat("constructed_by_keyword")
    else:
        nd = NoteData(text)
    if any(e[1] >= 4 * 256 * e[2] for e in exp):
        ctx.feat("note_beyond_measure_256")
    if "," in text and any("," in ln.strip() and ln.strip() != "," for ln in text.splitlines()):
        ctx.feat("measure_separator_on_a_row_line")
        if text[:1] in " \t\r\n" and case.get("rows") and text.lstrip().split(",")[0].strip().count("\n") == 0:
            ctx.feat("leading_blank_and_a_one_row_first_measure_in_compact_layout")
    if any(e[5] is not None and e[5] >= 2**31 for e in exp):
        ctx.feat("keysound_index_of_2_to_the_31_or_more")
    # every iteration of the object yields all notes: abandon one early, nest two, then take the full pass twice
    ctx.mon("repeat_iteration")
    it = iter(nd)
    head = [n for _, n in zip(range(ctx.evaluations % 4), it)]
    del it
    nested = 0
    for i, a in enumerate(nd):
        if i >= 3:
            break
        nested += sum(1 for _ in nd)
    notes = list(nd)
    again = list(nd)
    if again != notes or head != notes[: len(head)] or (notes and nested != min(3, len(notes)) * len(notes)):
        ctx.violation("decode:iteration-depends-on-earlier-iterations",
                      {"first_full": len(notes), "second_full": len(again), "nested_total": nested, "head": len(head)})
    # two passes alive at once, advanced alternately by 1-3 notes (the second one started a few notes late):
    # each must still yield exactly the notes of a pass taken alone
    ctx.mon("interleaved_iteration")
    import random as _random
    from ..core import digest64

    r2 = _random.Random(digest64(text))
    its = [iter(nd), iter(nd)]
    outs = [[], []]
    live = [True, True]
    outs[0].extend(n for _, n in zip(range(r2.randint(0, 3)), its[0]))
    turn = 1
    while any(live):
        if live[turn]:
            for _ in range(r2.randint(1, 3)):
                try:
                    outs[turn].append(next(its[turn]))
                except StopIteration:
                    live[turn] = False
                    break
        turn = 1 - turn
    if outs[0] != notes or outs[1] != notes:
        w = 0 if outs[0] != notes else 1
        i = next((i for i, (a, b) in enumerate(zip(outs[w], notes)) if a != b), min(len(outs[w]), len(notes)))
        ctx.violation("decode:two-passes-alive-at-once-disturb-each-other",
                      {"pass": w, "index": i, "got": repr(outs[w][i:i + 1]), "alone": repr(notes[i:i + 1]), "text": text[:300]})
    if len(notes) >= 2 and any(e[5] is not None for e in exp):
        ctx.feat("interleaved_passes_over_keysounded_rows")
    ctx.mon("decode")
    ok = len(notes) == len(exp)
    bad = None
    if ok:
        for n, e in zip(notes, exp):
            p, num, den, c, t, k = e
            if not (type(n) is Note and type(n.beat) is Beat and n.beat == Fraction(num, den) and n.column == c
                    and n.note_type is NoteType(t) and n.player == p and n.keysound_index == k
                    and (k is None or type(n.keysound_index) is int)):
                ok = False
                bad = {"got": repr(n), "expected": e}
                break
    ctx.expect(ok, "decode:notes", n_got=len(notes), n_expected=len(exp), first_bad=bad)
    ctx.mon("columns")
    ctx.expect(nd.columns == case["columns"], "decode:columns", got=nd.columns, expected=case["columns"])
    ctx.mon("str_identity")
    ctx.expect(str(nd) == text, "decode:str-identity", got=str(nd)[:200])

    # through charts / NoteData copies
    if ctx.evaluations % 5 == 0 or case["kind"] == "corpus":
        from simfile.sm import SMChart
        from simfile.ssc import SSCChart

        ctx.mon("via_chart")
        sm = SMChart.blank()
        sm.notes = text
        ssc = SSCChart.blank()
        ssc.notes = text
        ssc2 = SSCChart()
        ssc2["NOTES2"] = text
        for label, src in (("sm", sm), ("ssc", ssc), ("ssc-notes2", ssc2), ("notedata", nd)):
            nd2 = NoteData(src)
            ctx.expect(list(nd2) == notes and nd2.columns == nd.columns and str(nd2) == text,
                       "decode:via-" + label, n=len(list(nd2)))

    # ordering
    ctx.mon("ordering_ops")
    pos = [(n.player, Fraction(n.beat), n.column) for n in notes]
    for i in range(len(notes) - 1):
        if not (notes[i] < notes[i + 1]) or notes[i + 1] < notes[i] or not (pos[i] < pos[i + 1]):
            ctx.violation("order:not-strictly-increasing", {"a": repr(notes[i]), "b": repr(notes[i + 1])})
            break
    rng = ctx.rng
    pairs = []
    if len(notes) <= 10:
        pairs = [(i, j) for i in range(len(notes)) for j in range(len(notes))]
    elif notes:
        pairs = [(rng.randrange(len(notes)), rng.randrange(len(notes))) for _ in range(30)]
    for i, j in pairs:
        a, b = notes[i], notes[j]
        _ops(ctx, a, b, pos[i], pos[j])
        if pos[i][0] != pos[j][0]:
            ctx.feat("cross_player_pair")
    if notes:
        a = notes[rng.randrange(len(notes))]
        other = rng.choice([t for t in NoteType if t is not a.note_type])
        b = a._replace(note_type=other, keysound_index=rng.choice([None, 3]))
        ctx.feat("same_position_pair")
        p = (a.player, Fraction(a.beat), a.column)
        _ops(ctx, a, b, p, p)
        _ops(ctx, b, a, p, p)
        if len(notes) <= 300:
            sh = notes[:]
            rng.shuffle(sh)
            ctx.expect(sorted(sh) == notes and min(sh) == notes[0] and max(sh) == notes[-1],
                       "order:sorted-min-max", n=len(notes))


def _ops(ctx, a, b, pa, pb):
    try:
        got = (a < b, a <= b, a > b, a >= b)
    except Exception as e:
        ctx.violation("order:operator-raised", {"a": repr(a), "b": repr(b), "exc": repr(e)})
        return
    want = (pa < pb, pa <= pb, pa > pb, pa >= pb)
    if got != want:
        which = [op for op, g, w in zip(("<", "<=", ">", ">="), got, want) if g != w]
        ctx.violation("order:operator-disagrees:" + ",".join(which),
                      {"a": repr(a), "b": repr(b), "got": got, "want": want})

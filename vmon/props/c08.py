"""C08 -- Notes written to note data read back identically, in canonical form."""
from fractions import Fraction
from math import gcd

from ..core import api_call
from ..gen import notes as G
from . import c07

LEVEL = "exploration"
DESIGN_REF = "5/C08"
TECHNIQUE = "runtime oracle on the real NoteData.from_notes: decode==stream, independent text scanner for measure/row counts (4 x LCM), fixed-point monitor"
LEVEL_TEXT = (
    "Seeded sorted note streams (mixed denominators inside a measure, skipped measures, absent players, "
    "keysounds, off-grid beats, the empty stream), the notes of C07's generated texts and of every corpus chart "
    "are encoded by the real from_notes; the result is decoded back, scanned by an independent scanner for the "
    "canonical measure/row structure, and re-encoded for the fixed-point clause. Held = held on the counted streams."
)
LEVEL_NOTE = "Trusts the 25-line scanner in this module and Fraction arithmetic."
RULE = (
    "cases: random sorted streams (players subsets of {0,1,2}, 1-16 columns, denominators from "
    "{1,2,3,4,5,6,7,8,12,16,48,64,192,1000}), streams decoded from generated texts and corpus charts, the empty "
    "stream; non-trivial when the stream has >= 2 notes; distinct by canonical JSON."
    ' Round 5: one stream with a beat of denominator 1000003.'
    ' Round 6: columns (and notes) passed by keyword.'
    " Round 7: a stream whose production calls from_notes itself; the caller's list reused after the call."
    ' Round 8: a pass resumed after another complete pass.'
)
ASSUMPTIONS = ["the scanner's notion of measure/row (split on '&', ',', lines) is the documented text format"]
MONITORS = ["readback", "structure", "fixed_point"]
REQUIRED = ["mixed_denominators", "skipped_measure", "player0_absent", "two_players_absent", "empty_stream",
            "off_grid_beat", "from_text", "corpus_chart", "denominators_share_factor", "stream_given_as_notedata",
            "beats_alike_to_three_decimals", "denominator_above_a_million", "columns_passed_by_keyword", "stream_production_encodes_other_note_data_meanwhile",
            "callers_list_reused_after_the_call"]


def anchors():
    from ..core import pick

    return pick(
        "simfile.notes:NoteData.from_notes",
        "simfile.notes:NoteData.__iter__",
    )


def cases(ctx):
    rng = ctx.rng
    if ctx.shard == 0:
        yield {"kind": "stream", "columns": 4, "notes": []}
        yield {"kind": "stream", "columns": 1, "notes": []}
        yield {"kind": "stream", "columns": 16, "notes": []}
        # beats whose denominators are far beyond anything a chart editor writes (measures of millions of rows)
        yield {"kind": "stream", "columns": 1, "notes": [[0, 4500012, 1000003, 0, "1", None], [0, 6, 1, 0, "M", None]]}
        for name, ch in c07.corpus_charts():
            yield {"kind": "text", "name": name, "text": ch.notes}
    n = ctx.split(2500 if ctx.tier == "quick" else 16 * 25000)
    for i in range(n):
        if i % 4 == 3:
            cells = G.gen_cells(rng)
            yield {"kind": "text", "text": G.render_cells(rng, cells)}
        else:
            columns, notes = G.gen_stream(rng)
            yield {"kind": "stream", "columns": columns, "notes": notes}


def lcm(a, b):
    return a * b // gcd(a, b)


def scan_structure(text):
    """Independent scanner -> [[rows_of_measure...] per player], widths set, bad (reason) or None."""
    players = []
    widths = set()
    for section in text.split("&"):
        ms = []
        for measure in section.split(","):
            rows = [l.strip() for l in measure.strip().splitlines()]
            for row in set(rows):
                w, i = 0, 0
                while i < len(row):
                    i += 1
                    if i < len(row) and row[i] == "[":
                        i = row.index("]", i) + 1
                    w += 1
                widths.add(w)
            ms.append(len(rows))
        players.append(ms)
    return players, widths


def check(ctx, case):
    from simfile.notes import Note, NoteData, NoteType
    from simfile.timing import Beat

    if case["kind"] == "text":
        nd0 = NoteData(case["text"])
        stream = list(nd0)
        columns = nd0.columns
        ctx.feat("corpus_chart" if "name" in case else "from_text")
    else:
        columns = case["columns"]
        stream = [Note(Beat(num, den), c, NoteType(t), p, k) for p, num, den, c, t, k in case["notes"]]
    seen3 = {}
    for n in stream:
        key = (n.column, n.note_type, f"{float(n.beat % 4):.3f}")
        if key in seen3 and seen3[key] != n.beat % 4:
            ctx.feat("beats_alike_to_three_decimals")
        seen3.setdefault(key, n.beat % 4)
    ctx.begin(case, nontrivial=len(stream) >= 2,
              sample={"kind": case["kind"], "columns": columns, "n_notes": len(stream),
                      "notes": case.get("notes", [])[:8], "text": case.get("text", "")[:200]})
    if not stream:
        ctx.feat("empty_stream")
    if any(Fraction(n.beat).denominator > 10**6 for n in stream):
        ctx.feat("denominator_above_a_million")

    if case["kind"] == "text" and ctx.evaluations % 2:
        # the decoded chart object itself as the stream (an Iterable[Note] like any other)
        nd = NoteData.from_notes(nd0, columns)
        ctx.feat("stream_given_as_notedata")
    else:
        if ctx.evaluations % 3 == 0:
            nd = api_call(ctx, "from_notes(notes, columns=)", NoteData.from_notes, iter(stream), columns=columns)   # as in the documentation's examples
            ctx.feat("columns_passed_by_keyword")
        elif ctx.evaluations % 3 == 1:
            nd = api_call(ctx, "from_notes(notes=, columns=)", NoteData.from_notes, notes=tuple(stream), columns=columns)
        else:
            nd = NoteData.from_notes(iter(stream), columns)
    # (a) the stream is a lazy iterable whose production itself encodes other note data part-way through;
    # (b) the stream is a list the caller goes on using (cleared, refilled) after the call
    if stream and ctx.evaluations % 4 == 0:
        def lazy():
            for i, n in enumerate(stream):
                if i == len(stream) // 2:
                    NoteData.from_notes([Note(Beat(1), 0, NoteType.MINE), Note(Beat(9, 2), 0, NoteType.TAP)], 1)
                yield n

        nd = NoteData.from_notes(lazy(), columns)
        ctx.feat("stream_production_encodes_other_note_data_meanwhile")
    elif stream and ctx.evaluations % 4 == 1:
        buf = list(stream)
        nd = NoteData.from_notes(buf, columns)
        buf.clear()
        buf.extend([Note(Beat(0), 0, NoteType.MINE)] * 3)
        buf.append(Note(Beat(100), 0, NoteType.TAP))
        ctx.feat("callers_list_reused_after_the_call")
    text = str(nd)
    it = iter(nd)
    head = [n for _, n in zip(range(ctx.evaluations % 3), it)]
    del it
    for i, _a in enumerate(nd):
        if i >= 1:
            break
    # one pass suspended after its first note (possibly in the middle of a row) while a complete pass runs, then resumed
    it2 = iter(nd)
    first = [n for _, n in zip(range(1 + ctx.evaluations % 2), it2)]
    mid = list(nd)
    resumed = first + list(it2)
    if resumed != mid:
        ctx.violation("readback:pass-resumed-after-another-complete-pass-differs", {"n": len(mid), "first_diff": next((repr((a, b)) for a, b in zip(resumed, mid) if a != b), None)})
    back = list(nd)
    if list(nd) != back or head != back[: len(head)]:
        ctx.violation("readback:iteration-depends-on-earlier-iterations", {"n": len(back), "head": len(head)})
    ctx.mon("readback")
    ok = len(back) == len(stream) and all(
        type(b) is Note and b == s and type(b.beat) is Beat and b.note_type is s.note_type for b, s in zip(back, stream))
    ctx.expect(ok, "readback:notes", n_got=len(back), n_expected=len(stream),
               first_diff=next((repr((b, s)) for b, s in zip(back, stream) if b != s), None), text=text[:300])
    ctx.expect(nd.columns == columns, "readback:columns", got=nd.columns, expected=columns)

    # canonical structure via the independent scanner
    ctx.mon("structure")
    players, widths = scan_structure(text)
    exp_players = []
    if not stream:
        exp_players = [[4]]
    else:
        maxp = max(n.player for n in stream)
        for p in range(maxp + 1):
            pn = [n for n in stream if n.player == p]
            if not pn:
                exp_players.append([4])
                if p == 0:
                    ctx.feat("player0_absent")
                if p == 1 and not any(n.player == 0 for n in stream):
                    ctx.feat("two_players_absent")
                continue
            last_m = int(pn[-1].beat // 4)
            ms = []
            for m in range(last_m + 1):
                dens = [Fraction(n.beat).denominator for n in pn if int(n.beat // 4) == m]
                q = 1
                for d in dens:
                    q = lcm(q, d)
                ms.append(4 * q)
                if not dens and m < last_m:
                    ctx.feat("skipped_measure")
                ds = set(dens)
                if len(ds) > 1:
                    ctx.feat("mixed_denominators")
                    for a in ds:
                        for b in ds:
                            if a < b and gcd(a, b) > 1 and b % a:
                                ctx.feat("denominators_share_factor")
                if any(48 % d for d in ds):
                    ctx.feat("off_grid_beat")
            exp_players.append(ms)
    ctx.expect(players == exp_players, "structure:measures-and-rows", got=players, expected=exp_players, text=text[:300])
    ctx.expect(widths <= {columns}, "structure:row-width", widths=sorted(widths), columns=columns)

    # fixed point
    ctx.mon("fixed_point")
    again = NoteData.from_notes(list(nd), columns)
    ctx.expect(str(again) == text, "fixed-point:text", first=text[:200], second=str(again)[:200])

"""C09 -- Grouping and counting notes follow the documented rules for every stream."""
from fractions import Fraction

from ..gen import notes as G
from ..ref import grouping as R
from . import c07

LEVEL = "exploration"
DESIGN_REF = "5/C09"
TECHNIQUE = "runtime oracle on the real group_notes/count_*: two-pass reference model written from the documentation; exhaustive small grid x all 30 option sets"
LEVEL_TEXT = (
    "Every stream on a small grid (2 columns x 3 rows quick / x 4 rows thorough, 5 cell kinds) is run through "
    "the real group_notes under all 30 option sets and through every count function, and compared - groups, "
    "item classes, tail beats, or the note the exception names - with a reference model; random streams on 1-6 "
    "columns with all nine types, random type subsets and same_beat_minimum 1-4, and all corpus charts, extend "
    "the exploration. Exhaustive only on the grid."
)
LEVEL_NOTE = "Trusts the reference model vmon/ref/grouping.py (about 90 lines, written from the docstrings and the property text)."
RULE = (
    "grid: stream index in base 5 over rows x 2 cells (empty, tap, hold head, tail, mine); random: seeded "
    "streams over 1-6 columns, up to 40 rows, all note types; corpus: every chart. Each case runs all 30 option "
    "sets (3 same-beat modes x (join off | join on x 3x3 orphan policies)) plus the count functions. Non-trivial "
    "when the stream holds a head or a tail or two notes on one beat."
    ' Round 5: chains of overlapping holds of 300-700 notes (some hold always open).'
    ' Round 6: include_note_types as a plain set, NoteData input in the compact layout.'
    ' Round 7: two generators consumed in lock-step; one hold with 1300 notes under it.'
    ' Round 8: a stream of 16424 (thorough 32808) notes; empty and one-sided include sets.'
)
EXHAUSTIVE_PART = "every stream on 2 columns x 3 rows (quick) / 2 x 4 rows and 3 columns x 3 rows (thorough) over {empty, tap, hold head, tail, mine} x all 30 option sets"
ASSUMPTIONS = ["vmon/ref/grouping.py states the documented rules"]
MONITORS = ["group", "group_raises", "count_steps", "count_mines", "count_holds_rolls", "interleaved_generators"]
REQUIRED = ["overlapping_holds", "interrupted_head", "orphan_tail", "unclosed_head", "same_beat_mixed_types",
            "corpus_chart", "interrupted_head_while_younger_open", "type_subset", "stream_given_as_notedata",
            "full_row_with_minimum_equal_to_columns", "consecutive_notes_less_than_a_tick_apart",
            "some_hold_open_for_more_than_256_notes", "include_note_types_given_as_a_plain_set", "notedata_input_in_compact_layout", "stream_of_more_than_16384_notes", "hold_open_for_more_than_65536_notes"]

GRID_KINDS = "01234M"  # index 0..4 used: 0 empty, 1 tap, 2 hold head, 3 tail, 4 -> mine
GRID_MAP = ["0", "1", "2", "3", "M"]


def anchors():
    from ..core import pick

    return pick(
        "simfile.notes.group:group_notes",
        "simfile.notes.count:count_grouped_notes",
        "simfile.notes.count:count_steps",
        "simfile.notes.count:count_mines",
        "simfile.notes.count:_count_holds_or_rolls",
    )


def option_sets():
    out = []
    for sb in (R.SEPARATE, R.BY_TYPE, R.ALL):
        out.append((sb, False, R.RAISE, R.RAISE))
        for oh in (R.RAISE, R.KEEP, R.DROP):
            for ot in (R.RAISE, R.KEEP, R.DROP):
                out.append((sb, True, oh, ot))
    return out


OPTIONS = option_sets()


def grid_stream(code, rows, cols=2):
    notes = []
    for r in range(rows):
        for c in range(cols):
            code, k = divmod(code, 5)
            if k:
                notes.append([r, 1, c, GRID_MAP[k], None])
    return notes


def cases(ctx):
    rng = ctx.rng
    quick = ctx.tier == "quick"
    rows = 3 if quick else 4
    total = 5 ** (rows * 2)
    block = 125
    for bi, c0 in enumerate(range(0, total, block)):
        if ctx.mine(bi):
            yield {"kind": "grid", "rows": rows, "c0": c0, "c1": min(total, c0 + block)}
    if not quick:
        # a second exhaustive grid: 3 columns x 3 rows (5^9 streams), for what needs three columns
        total3 = 5 ** 9
        for bi, c0 in enumerate(range(0, total3, 625)):
            if ctx.mine(bi):
                yield {"kind": "grid", "rows": 3, "cols": 3, "c0": c0, "c1": min(total3, c0 + 625)}
    ctx.exhaustive = True
    if ctx.shard == 0:
        for name, ch in c07.corpus_charts():
            yield {"kind": "corpus", "name": name}
    for _ in range(ctx.split(12 if quick else 16 * 60)):
        columns, notes = G.gen_chain(rng, malformed=rng.choice([0.0, 0.0, 0.0, 0.01]))
        yield {"kind": "random", "notes": notes, "include": None, "minimum": rng.randint(1, 4), "chain": True}
    if ctx.shard == 0:
        # one hold with more than a thousand notes under it, all released at once when it ends
        long_hold = [[0, 1, 0, "2", None]] + [[r, 4, 1 + (r % 2), "1", None] for r in range(1, 1300)] + [[400, 1, 0, "3", None]]
        yield {"kind": "random", "notes": long_hold, "include": None, "minimum": 1, "chain": True}
    if ctx.shard == 0:
        # a stream of more than 16384 notes whose two-note beats sit on and around index 16384 (and 32768 in the thorough tier)
        yield {"kind": "big", "n": 16384 * (1 if quick else 2) + 40}
        # one hold held open through more than 65536 (131072 in the thorough tier) notes, heads joined to tails
        yield {"kind": "bighold", "n": 65536 * (1 if quick else 2) + 40}
    n = ctx.split(800 if quick else 16 * 30000)
    for i in range(n):
        types = rng.choice(["1234M", "1234M", "234", "1234AFKLM", "12344M3", "23"])
        columns, notes = G.gen_single_stream(rng, types=types, density=rng.choice([0.2, 0.5, 0.8]),
                                             keysounds=rng.random() < 0.2, tail_ks=True)
        sub = None
        if rng.random() < 0.5:
            allt = list(G.NOTE_CHARS)
            sub = "".join(sorted(rng.sample(allt, rng.randint(1, 8))))
            if rng.random() < 0.1:
                sub = rng.choice(["", "24", "3"])
        yield {"kind": "random", "notes": notes, "include": sub, "minimum": rng.randint(1, 4)}


def to_model(notes):
    return [(Fraction(num, den), c, t, 0, k) for num, den, c, t, k in notes]


def to_real(notes):
    from simfile.notes import Note, NoteType
    from simfile.timing import Beat

    return [Note(Beat(num, den), c, NoteType(t), 0, k) for num, den, c, t, k in notes]


def real_item(x):
    from simfile.notes import Note
    from simfile.notes.group import NoteWithTail

    n = (Fraction(x.beat), x.column, x.note_type.value, x.player, x.keysound_index)
    if type(x) is Note:
        return ("N", n)
    if type(x) is NoteWithTail:
        return ("T", n, Fraction(x.tail_beat))
    return ("?", repr(x))


def note_tuple(x):
    return (Fraction(x.beat), x.column, x.note_type.value, x.player, x.keysound_index)


def check_big(ctx, case):
    """One long stream: jumps every 7th beat and on the notes around every multiple of 16384; JOIN_ALL / BY_TYPE rows
    and the step / jump counts against the reference."""
    from simfile.notes import count as C
    from simfile.notes.group import SameBeatNotes, group_notes

    notes = []
    beat = 0
    while len(notes) < case["n"]:
        k = len(notes)
        near = min(k % 16384, 16384 - k % 16384) <= 3 and k > 100
        if near or beat % 7 == 0:
            notes.append([beat, 4, 0, "1", None])
            notes.append([beat, 4, 1, "1" if beat % 2 else "M", None])
        else:
            notes.append([beat, 4, beat % 3, "1", None])
        beat += 1
    ctx.begin(case, nontrivial=True, sample={"kind": "big", "n_notes": len(notes)})
    ctx.feat("stream_of_more_than_16384_notes")
    model, real = to_model(notes), to_real(notes)
    for sb, mode in ((R.ALL, SameBeatNotes.JOIN_ALL), (R.BY_TYPE, SameBeatNotes.JOIN_BY_NOTE_TYPE)):
        ctx.mon("group")
        want = R.group(model, frozenset(G.NOTE_CHARS), sb, False, R.RAISE, R.RAISE)
        got = [[real_item(x) for x in g] for g in group_notes(iter(real), same_beat_notes=mode)]
        if got != want:
            i = next((i for i, (a, b) in enumerate(zip(got, want)) if a != b), min(len(got), len(want)))
            ctx.violation(f"group:big-stream:sb{sb}", {"index": i, "got": repr(got[i:i + 2]), "want": repr(want[i:i + 2]), "n_got": len(got), "n_want": len(want)})
    ctx.mon("count_steps")
    ctx.expect(C.count_steps(iter(real)) == R.count_steps(model), "count_steps:big-stream", got=C.count_steps(iter(real)), want=R.count_steps(model))
    ctx.expect(C.count_jumps(iter(real)) == R.count_steps(model, minimum=2), "count_jumps:big-stream",
               got=C.count_jumps(iter(real)), want=R.count_steps(model, minimum=2))


def check_bighold(ctx, case):
    """A hold in column 0 from beat 0, case["n"] taps/mines in columns 1-2 on consecutive ticks (a two-note row every
    1000th), then the hold's tail: grouped with heads joined to tails, hold and step counts."""
    from simfile.notes import count as C
    from simfile.notes.group import SameBeatNotes, group_notes

    n = case["n"]
    notes = [[0, 48, 0, "2", None]]
    for r in range(1, n + 1):
        notes.append([r, 48, 1, "1" if r % 5 else "M", None])
        if r % 1000 == 0:
            notes.append([r, 48, 2, "1", None])
    notes.append([n + 1, 48, 0, "3", None])
    ctx.begin(case, nontrivial=True, sample={"kind": "bighold", "n_notes": len(notes)})
    ctx.feat("hold_open_for_more_than_65536_notes")
    model, real = to_model(notes), to_real(notes)
    for sb, mode in ((R.SEPARATE, SameBeatNotes.KEEP_SEPARATE), (R.ALL, SameBeatNotes.JOIN_ALL)):
        ctx.mon("group")
        want = R.group(model, frozenset(G.NOTE_CHARS), sb, True, R.RAISE, R.RAISE)
        try:
            got = [[real_item(x) for x in g] for g in group_notes(iter(real), same_beat_notes=mode, join_heads_to_tails=True)]
        except Exception as e:
            ctx.violation(f"group:big-hold:sb{sb}:raised", {"exception": f"{type(e).__name__}: {e}"[:200], "n_notes": len(notes)})
            continue
        if got != want:
            i = next((i for i, (a, b) in enumerate(zip(got, want)) if a != b), min(len(got), len(want)))
            ctx.violation(f"group:big-hold:sb{sb}", {"index": i, "got": repr(got[i:i + 2]), "want": repr(want[i:i + 2]), "n_got": len(got), "n_want": len(want)})
    for name, fn, head in (("count_holds", C.count_holds, "2"),):
        ctx.mon("count_holds_rolls")
        try:
            got = fn(iter(real))
        except Exception as e:
            got = f"raised {type(e).__name__}: {e}"[:200]
        ctx.expect(got == R.count_heads(model, head), f"{name}:big-hold", got=got, want=R.count_heads(model, head))
    ctx.mon("count_steps")
    ctx.expect(C.count_steps(iter(real)) == R.count_steps(model), "count_steps:big-hold", got=C.count_steps(iter(real)), want=R.count_steps(model))


def check(ctx, case):
    if case["kind"] == "big":
        return check_big(ctx, case)
    if case["kind"] == "bighold":
        return check_bighold(ctx, case)
    if case["kind"] == "grid":
        ctx.begin(case, nontrivial=False)
        ctx.evaluations -= 1
        for code in range(case["c0"], case["c1"]):
            notes = grid_stream(code, case["rows"], case.get("cols", 2))
            ctx.evaluations += 1
            ctx.digests.add(hash(("grid", case["rows"], case.get("cols", 2), code)) & 0xFFFFFFFFFFFFFFFF)
            run_stream(ctx, notes, None, None, {"kind": "grid1", "rows": case["rows"], "cols": case.get("cols", 2), "code": code})
            if code % 7919 == 4000:
                ctx.add_sample({"kind": "grid1", "rows": case["rows"], "cols": case.get("cols", 2), "code": code, "stream": notes})
        return
    if case["kind"] == "grid1":
        ctx.begin(case)
        run_stream(ctx, grid_stream(case["code"], case["rows"], case.get("cols", 2)), None, None, case)
        return
    if case["kind"] == "corpus":
        from simfile.notes import NoteData

        chart = dict(c07.corpus_charts())[case["name"]]
        real = [n for n in NoteData(chart) if n.player == 0]
        notes = [[n.beat.numerator, n.beat.denominator, n.column, n.note_type.value, n.keysound_index] for n in real]
        ctx.begin(case, sample={"kind": "corpus", "name": case["name"], "n_notes": len(notes)})
        ctx.feat("corpus_chart")
        run_stream(ctx, notes, None, 1, case)
        return
    notes = case["notes"]
    heads_tails = any(n[3] in "234" for n in notes)
    ctx.begin(case, nontrivial=heads_tails or len({(n[0], n[1]) for n in notes}) < len(notes),
              sample=None if not case.get("chain") else {"kind": "chain of overlapping holds", "n_notes": len(notes), "first": notes[:12]})
    if case.get("chain"):
        ctx.feat("some_hold_open_for_more_than_256_notes")
    run_stream(ctx, notes, case["include"], case["minimum"], case)


def observe_features(ctx, model):
    pairs, events = R.classify(model)
    open_ = {}
    for i, n in enumerate(model):
        col, typ = n[1], n[2]
        if typ == "3":
            open_.pop(col, None)
        else:
            if col in open_:
                if len(open_) > 1 and list(open_)[-1] != col:
                    ctx.feat("interrupted_head_while_younger_open")
                open_.pop(col)
            if typ in R.HEADS:
                open_[col] = i
                if len(open_) > 1:
                    ctx.feat("overlapping_holds")
    kinds = {k for k, _ in events}
    if "tail" in kinds:
        ctx.feat("orphan_tail")
    if "head" in kinds:
        ctx.feat("interrupted_head" if any(
            k == "head" and any(m[1] == model[i][1] and m[0] > model[i][0] for m in model[i + 1:]) for k, i in events) else "unclosed_head")
        if open_:
            ctx.feat("unclosed_head")
    bl = sorted({n[0] for n in model})
    if any(0 < b2 - b1 < Fraction(1, 48) for b1, b2 in zip(bl, bl[1:])):
        ctx.feat("consecutive_notes_less_than_a_tick_apart")
    beats = {}
    for n in model:
        beats.setdefault(n[0], set()).add(n[2])
    if any(len(v) > 1 for v in beats.values()):
        ctx.feat("same_beat_mixed_types")


def run_stream(ctx, notes, include, minimum, case):
    from simfile.notes import NoteType
    from simfile.notes import count as C
    from simfile.notes.group import (OrphanedNoteException, OrphanedNotes, SameBeatNotes, group_notes)

    model = to_model(notes)
    real = to_real(notes)
    inc_model = frozenset(include) if include is not None else frozenset(G.NOTE_CHARS)
    inc_real = frozenset(NoteType(t) for t in inc_model)
    if include is not None:
        ctx.feat("type_subset")
    observe_features(ctx, [n for n in model if n[2] in inc_model])
    SB = {R.SEPARATE: SameBeatNotes.KEEP_SEPARATE, R.BY_TYPE: SameBeatNotes.JOIN_BY_NOTE_TYPE, R.ALL: SameBeatNotes.JOIN_ALL}
    OP = {R.RAISE: OrphanedNotes.RAISE_EXCEPTION, R.KEEP: OrphanedNotes.KEEP_ORPHAN, R.DROP: OrphanedNotes.DROP_ORPHAN}

    for oi, (sb, join, oh, ot) in enumerate(OPTIONS):
        key = f"sb{sb}-join{int(join)}-oh{oh}-ot{ot}"
        try:
            want = ("ok", R.group(model, inc_model, sb, join, oh, ot))
        except R.Raised as e:
            want = ("raise", e.note)
        # the subset is given as a frozenset or (as in the documentation's examples) as a plain set
        kwargs = dict(include_note_types=set(inc_real) if oi % 2 else inc_real, same_beat_notes=SB[sb], join_heads_to_tails=join)
        if oi % 2:
            ctx.feat("include_note_types_given_as_a_plain_set")
        if join:
            kwargs.update(orphaned_head=OP[oh], orphaned_tail=OP[ot])
        try:
            res = list(group_notes(iter(real), **kwargs))
            got = ("ok", [[real_item(x) for x in g] for g in res])
        except OrphanedNoteException as e:
            arg = e.args[0] if e.args else None
            # the note the exception is about is compared when the exception carries a note object; an
            # exception that carries only a message is accepted (the payload is not documented)
            got = ("raise", note_tuple(arg) if hasattr(arg, "beat") else (want[1] if want[0] == "raise" else repr(arg)))
        except Exception as e:  # any other exception is a violation of the documented behaviour
            got = ("error", repr(e))
        if want[0] == "raise":
            ctx.mon("group_raises")
            ctx.outcome("raised")
        else:
            ctx.mon("group")
            ctx.outcome("returned")
        if got != want:
            ctx.violation(f"group:{key}:{want[0]}-vs-{got[0]}",
                          {"options": key, "include": sorted(inc_model), "want": repr(want)[:600], "got": repr(got)[:600]},
                          case=case)

    # two generators over the same stream consumed in lock-step (zip), with a count taken while both are suspended:
    # each must still yield what it yields alone
    if len(real) <= 400:
        for sb in (R.BY_TYPE, R.ALL):
            ctx.mon("interleaved_generators")
            try:
                alone = [[real_item(x) for x in g] for g in group_notes(iter(real), include_note_types=inc_real, same_beat_notes=SB[sb])]
                g1 = group_notes(iter(real), include_note_types=inc_real, same_beat_notes=SB[sb])
                g2 = group_notes(iter(real), include_note_types=inc_real, same_beat_notes=SB[sb])
                o1, o2 = [], []
                for a, b in zip(g1, g2):
                    o1.append([real_item(x) for x in a])
                    C.count_steps(iter(real[:6]), same_beat_notes=SB[sb])
                    o2.append([real_item(x) for x in b])
                if o1 != alone or o2 != alone:
                    ctx.violation(f"group:sb{sb}:two-generators-consumed-in-lock-step-disturb-each-other",
                                  {"alone": repr(alone)[:300], "first": repr(o1)[:300], "second": repr(o2)[:300]}, case=case)
            except OrphanedNoteException:
                pass

    # counting functions
    mins = [minimum] if minimum else [1, 2, 3]
    for sb in (R.ALL, R.SEPARATE, R.BY_TYPE):
        for m in mins:
            ctx.mon("count_steps")
            kw = dict(same_beat_notes=SB[sb], same_beat_minimum=m)
            inc = R.DEFAULT_TYPES
            if include is not None:
                kw["include_note_types"] = inc_real
                inc = inc_model
            want = R.count_steps(model, inc, sb, m)
            got = C.count_steps(iter(real), **kw)
            ctx.expect(got == want, f"count_steps:sb{sb}", minimum=m, want=want, got=got, include=include)
    for sb in (R.ALL, R.SEPARATE, R.BY_TYPE):
        ctx.mon("count_steps")
        inc = inc_model if include is not None else R.DEFAULT_TYPES
        kwi = {"include_note_types": inc_real} if include is not None else {}
        want = R.count_steps(model, inc, sb, 2)
        got = C.count_jumps(iter(real), same_beat_notes=SB[sb], **kwi)
        ctx.expect(got == want, f"count_jumps:sb{sb}", want=want, got=got, include=include)
        for m in (mins if minimum else [3]):
            want = R.count_steps(model, inc, sb, m)
            kwm = {"same_beat_minimum": m} if (minimum or ctx.evaluations % 2) else {}
            got = C.count_hands(iter(real), same_beat_notes=SB[sb], **kwm, **kwi)
            ctx.expect(got == want, f"count_hands:sb{sb}", minimum=m, want=want, got=got, include=include)
    ctx.mon("count_steps")
    ctx.expect(C.count_steps(iter(real)) == R.count_steps(model), "count_steps:defaults",
               want=R.count_steps(model), got=C.count_steps(iter(real)))
    ctx.expect(C.count_jumps(iter(real)) == R.count_steps(model, minimum=2), "count_jumps:defaults",
               want=R.count_steps(model, minimum=2), got=C.count_jumps(iter(real)))
    ctx.expect(C.count_hands(iter(real)) == R.count_steps(model, minimum=3), "count_hands:defaults",
               want=R.count_steps(model, minimum=3), got=C.count_hands(iter(real)))
    if minimum:
        ctx.expect(C.count_hands(iter(real), same_beat_minimum=minimum) == R.count_steps(model, minimum=minimum),
                   "count_hands:minimum", minimum=minimum)
    # the same questions with the stream given as a NoteData object (an Iterable[Note] like any other)
    if real and len(real) <= 400 and all(n.keysound_index is None or n.note_type.value != "3" for n in real) \
            and all(n.beat.denominator <= 1000 for n in real):   # (a measure has 4 x LCM(denominators) rows)
        from simfile.notes import NoteData

        columns = max(n.column for n in real) + 1
        nd = NoteData.from_notes(iter(real), columns)
        if list(nd) == real:
            ctx.feat("stream_given_as_notedata")
            rows = {}
            for n in model:
                if n[2] in R.DEFAULT_TYPES:
                    rows[n[0]] = rows.get(n[0], 0) + 1
            if any(v == columns for v in rows.values()):
                ctx.feat("full_row_with_minimum_equal_to_columns")
            for m in sorted({1, 2, 3, columns, minimum or 1}):
                ctx.mon("count_steps")
                for fn, kw, want in (
                    (C.count_steps, {"same_beat_minimum": m}, R.count_steps(model, minimum=m)),
                    (C.count_hands, {"same_beat_minimum": m}, R.count_steps(model, minimum=m)),
                ):
                    got = fn(nd, **kw)
                    ctx.expect(got == want, f"{fn.__name__}:notedata-input", minimum=m, columns=columns, want=want, got=got)
            ctx.expect(C.count_jumps(nd) == R.count_steps(model, minimum=2), "count_jumps:notedata-input", columns=columns)
            ctx.expect(C.count_hands(nd) == R.count_steps(model, minimum=3), "count_hands:notedata-input-default", columns=columns)
            # the same chart in the compact layout (the measure separator on a row line: "0001,1000")
            compact = NoteData(str(nd).replace("\n,\n", ","))
            if "," in str(compact) and list(compact) == real:
                ctx.feat("notedata_input_in_compact_layout")
                for m in sorted({1, 2, 3}):
                    for sbm in (R.ALL, R.SEPARATE, R.BY_TYPE):
                        ctx.mon("count_steps")
                        got = C.count_steps(compact, same_beat_notes=SB[sbm], same_beat_minimum=m)
                        want = R.count_steps(model, R.DEFAULT_TYPES, sbm, m)
                        ctx.expect(got == want, f"count_steps:compact-notedata-input:sb{sbm}", minimum=m, want=want, got=got, text=str(compact)[:200])
                ctx.expect(C.count_jumps(compact) == R.count_steps(model, minimum=2), "count_jumps:compact-notedata-input")
                ctx.expect(C.count_hands(compact) == R.count_steps(model, minimum=3), "count_hands:compact-notedata-input")
                ctx.expect(C.count_mines(compact) == R.count_mines(model), "count_mines:compact-notedata-input")
            try:
                g1 = [[real_item(x) for x in g] for g in group_notes(nd, same_beat_notes=SB[R.ALL])]
                ctx.expect(g1 == R.group(model, frozenset(G.NOTE_CHARS), R.ALL, False), "group:notedata-input")
            except Exception as e:
                ctx.violation("group:notedata-input-raised", {"exc": repr(e)})
    ctx.mon("count_mines")
    ctx.expect(C.count_mines(iter(real)) == R.count_mines(model), "count_mines",
               want=R.count_mines(model), got=C.count_mines(iter(real)))
    for fn, head in ((C.count_holds, "2"), (C.count_rolls, "4")):
        for oh in (R.RAISE, R.KEEP, R.DROP):
            for ot in (R.RAISE, R.KEEP, R.DROP):
                ctx.mon("count_holds_rolls")
                try:
                    want = ("ok", R.count_heads(model, head, oh, ot))
                except R.Raised as e:
                    want = ("raise", e.note)
                kw = {} if (oh, ot) == (R.RAISE, R.RAISE) and ctx.evaluations % 2 else dict(orphaned_head=OP[oh], orphaned_tail=OP[ot])
                try:
                    got = ("ok", fn(iter(real), **kw))
                except OrphanedNoteException as e:
                    arg = e.args[0] if e.args else None
                    got = ("raise", note_tuple(arg) if hasattr(arg, "beat") else (want[1] if want[0] == "raise" else repr(arg)))
                except Exception as e:
                    got = ("error", repr(e))
                if got != want:
                    ctx.violation(f"{fn.__name__}:oh{oh}-ot{ot}:{want[0]}-vs-{got[0]}",
                                  {"want": repr(want), "got": repr(got)}, case=case)

"""C10 -- Ungrouping grouped notes restores the original note stream."""
from fractions import Fraction

from ..gen import notes as G
from ..ref import grouping as R
from . import c07, c09

LEVEL = "exploration"
DESIGN_REF = "5/C10"
TECHNIQUE = "runtime round-trip monitor on the real group_notes -> ungroup_notes against the reference orphan classification; hand-built grouped sequences for the inside-a-hold policy"
LEVEL_TEXT = (
    "Every stream of the C09 grid and seeded random streams (keysounded heads, overlapping holds, orphans) is "
    "grouped by the real group_notes under every same-beat mode x join x orphan policy that does not raise, "
    "ungrouped under the three ungroup policies, and compared with the included notes minus exactly the orphans "
    "the reference classification says were dropped; generated grouped sequences with a note inside a joined hold "
    "decide the raise/keep/drop clause. Exhaustive only on the grid."
)
LEVEL_NOTE = "Trusts vmon/ref/grouping.py for which notes are orphans; equality is exact on beat, column, type, player, keysound index."
RULE = (
    "grid: as C09 (2 columns x 3|4 rows x 5 cell kinds); random: single-player streams, heads may carry keysound "
    "indices, tails never; inside: generated grouped sequences containing a NoteWithTail and a note on its column "
    "strictly inside it; corpus: every chart. Each case runs all non-raising option sets x 3 ungroup policies. "
    "Non-trivial when the stream has a head or tail."
    ' Round 5: hold chains; joined holds nested in a joined hold in the hand-built sequences.'
    ' Round 6: distinct beats that are one float; runs aborted by an exception or abandoned before a judged run.'
    ' Round 7: generators of fresh note objects, grouped rows kept as tuples.'
    ' Round 8: empty include set, heads without tails, tails without heads.'
)
EXHAUSTIVE_PART = "every stream on 2 columns x 3 rows (quick) / 2 x 4 rows and 3 columns x 3 rows (thorough) x all non-raising option sets x 3 ungroup policies"
ASSUMPTIONS = ["vmon/ref/grouping.py classifies orphans as documented"]
MONITORS = ["roundtrip", "inside_hold"]
REQUIRED = ["keysounded_head_joined", "dropped_orphans", "note_inside_hold", "corpus_chart",
            "tail_same_beat_between_row_notes", "by_type_two_heads_one_orphan", "note_inside_hold_in_a_multi_note_row",
            "joined_hold_nested_in_a_joined_hold_on_its_column", "run_aborted_by_an_exception_before_a_judged_run",
            "generator_abandoned_before_a_judged_run", "distinct_beats_that_are_the_same_float",
            "lazy_stream_of_fresh_objects_and_tuple_rows", "empty_set_of_included_types"]


def anchors():
    from ..core import pick

    return pick(
        "simfile.notes.group:ungroup_notes",
        "simfile.notes.group:group_notes",
    )


def cases(ctx):
    rng = ctx.rng
    quick = ctx.tier == "quick"
    rows = 3 if quick else 4
    total = 5 ** (rows * 2)
    block = 125
    for bi, c0 in enumerate(range(0, total, block)):
        if ctx.mine(bi):
            yield {"kind": "grid", "rows": rows, "c0": c0, "c1": min(total, c0 + block)}
    if not quick:
        # a second exhaustive grid: 3 columns x 3 rows (5^9 streams), for what needs three columns
        total3 = 5 ** 9
        for bi, c0 in enumerate(range(0, total3, 625)):
            if ctx.mine(bi):
                yield {"kind": "grid", "rows": 3, "cols": 3, "c0": c0, "c1": min(total3, c0 + 625)}
    ctx.exhaustive = True
    if ctx.shard == 0:
        for name, ch in c07.corpus_charts():
            yield {"kind": "corpus", "name": name}
    for _ in range(ctx.split(8 if quick else 16 * 40)):
        columns, notes = G.gen_chain(rng, malformed=rng.choice([0.0, 0.0, 0.01]))
        yield {"kind": "random", "notes": notes, "include": None, "chain": True}
    n = ctx.split(1500 if quick else 16 * 40000)
    for i in range(n):
        if i % 5 == 4:
            yield gen_inside(rng)
            continue
        types = rng.choice(["1234M", "1234M", "234", "1234AFKLM", "12342M3", "2233", "12234"])
        columns, notes = G.gen_single_stream(rng, types=types, density=rng.choice([0.3, 0.6, 0.9]),
                                             keysounds=rng.random() < 0.5, tail_ks=False)
        sub = None
        if rng.random() < 0.3:
            sub = "".join(sorted(rng.sample(list(G.NOTE_CHARS), rng.randint(2, 8))))
            if rng.random() < 0.15:
                sub = rng.choice(["", "24", "3", "2", "13"])   # nothing at all; heads without tails; tails without heads
        yield {"kind": "random", "notes": notes, "include": sub}


def gen_inside(rng):
    """A grouped sequence (rows of items) with notes lying inside joined holds on their column."""
    cols = rng.randint(1, 4)
    items = []  # [beat_num, col, kind, type, tail_beat|None, ks]
    b = 0
    holds = {}
    for _ in range(rng.randint(2, 12)):
        b += rng.randint(0, 3) if items else 1   # several items may share a beat (a multi-note row)
        c = rng.randrange(cols)
        if any(it[0] == b and it[1] == c for it in items):
            continue
        if c not in holds or holds[c] < b:
            if rng.random() < 0.5:
                tb = b + rng.randint(1, 6)
                holds[c] = tb
                items.append([b, c, "T", rng.choice("24"), tb, rng.choice([None, 7])])
            else:
                items.append([b, c, "N", rng.choice("1M2L"), None, rng.choice([None, 3])])
        elif holds[c] > b:
            # strictly inside the joined hold on this column: a plain note, or a second joined hold nested in the first
            if rng.random() < 0.3 and holds[c] - b >= 2:
                tb = b + rng.randint(1, holds[c] - b - 1)
                items.append([b, c, "T", rng.choice("24"), tb, None])
            else:
                items.append([b, c, "N", rng.choice("1M24L"), None, None])
    items.sort(key=lambda it: (it[0], it[1]))
    shape = rng.choice(["separate", "by_beat", "by_beat"])
    return {"kind": "inside", "items": items, "shape": shape}


def check(ctx, case):
    if case["kind"] == "grid":
        ctx.begin(case, nontrivial=False)
        ctx.evaluations -= 1
        for code in range(case["c0"], case["c1"]):
            notes = c09.grid_stream(code, case["rows"], case.get("cols", 2))
            ctx.evaluations += 1
            ctx.digests.add(hash(("grid", case["rows"], case.get("cols", 2), code)) & 0xFFFFFFFFFFFFFFFF)
            roundtrip(ctx, notes, None, {"kind": "grid1", "rows": case["rows"], "cols": case.get("cols", 2), "code": code})
            if code % 7919 == 4000:
                ctx.add_sample({"kind": "grid1", "rows": case["rows"], "cols": case.get("cols", 2), "code": code, "stream": notes})
        return
    if case["kind"] == "grid1":
        ctx.begin(case)
        roundtrip(ctx, c09.grid_stream(case["code"], case["rows"], case.get("cols", 2)), None, case)
        return
    if case["kind"] == "corpus":
        from simfile.notes import NoteData

        chart = dict(c07.corpus_charts())[case["name"]]
        real = [n for n in NoteData(chart) if n.player == 0]
        notes = [[n.beat.numerator, n.beat.denominator, n.column, n.note_type.value, n.keysound_index] for n in real]
        # the domain says tails carry no keysound index
        notes = [n if n[3] != "3" else n[:4] + [None] for n in notes]
        ctx.begin(case, sample={"kind": "corpus", "name": case["name"], "n_notes": len(notes)})
        ctx.feat("corpus_chart")
        roundtrip(ctx, notes, None, case)
        return
    if case["kind"] == "inside":
        ctx.begin(case)
        inside(ctx, case)
        return
    notes = case["notes"]
    ctx.begin(case, nontrivial=any(n[3] in "234" for n in notes))
    roundtrip(ctx, notes, case["include"], case)


def roundtrip(ctx, notes, include, case):
    from simfile.notes import NoteType
    from simfile.notes.group import (NoteWithTail, OrphanedNoteException, OrphanedNotes, SameBeatNotes,
                                     group_notes, ungroup_notes)

    model = c09.to_model(notes)
    real = c09.to_real(notes)
    inc_model = frozenset(include) if include is not None else frozenset(G.NOTE_CHARS)
    if include is not None and not include:
        ctx.feat("empty_set_of_included_types")
    inc_real = frozenset(NoteType(t) for t in inc_model)
    SB = {R.SEPARATE: SameBeatNotes.KEEP_SEPARATE, R.BY_TYPE: SameBeatNotes.JOIN_BY_NOTE_TYPE, R.ALL: SameBeatNotes.JOIN_ALL}
    OP = {R.RAISE: OrphanedNotes.RAISE_EXCEPTION, R.KEEP: OrphanedNotes.KEEP_ORPHAN, R.DROP: OrphanedNotes.DROP_ORPHAN}
    feature_scan(ctx, [n for n in model if n[2] in inc_model])
    bs = sorted({n[0] for n in model})
    if any(a != b and float(a) == float(b) for a, b in zip(bs, bs[1:])):
        ctx.feat("distinct_beats_that_are_the_same_float")

    for oi, (sb, join, oh, ot) in enumerate(c09.OPTIONS):
        kwargs = dict(include_note_types=inc_real, same_beat_notes=SB[sb], join_heads_to_tails=join)
        if join:
            kwargs.update(orphaned_head=OP[oh], orphaned_tail=OP[ot])
        try:
            want = R.expected_ungrouped(model, inc_model, join, oh, ot)
        except R.Raised:
            # group_notes raises (what it raises is C09's business). The call is made all the same: a run that
            # ends part-way in an exception must leave nothing behind for the runs judged after it
            try:
                list(group_notes(iter(real), **kwargs))
            except OrphanedNoteException:
                ctx.feat("run_aborted_by_an_exception_before_a_judged_run")
            continue
        if oi % 3 == 0 and join:
            # ... and so must a run whose generator is abandoned after one or two groups
            g = group_notes(iter(real), **kwargs)
            try:
                next(g, None)
                next(g, None)
            except OrphanedNoteException:
                pass
            del g
            ctx.feat("generator_abandoned_before_a_judged_run")
        try:
            if oi % 4 == 1:
                # the stream as a generator of fresh note objects (nothing else keeps them alive), rows kept as tuples
                fresh = (n._replace() for n in real)
                grouped = tuple(tuple(g) for g in group_notes(fresh, **kwargs))
                del fresh
                ctx.feat("lazy_stream_of_fresh_objects_and_tuple_rows")
            else:
                grouped = [list(g) for g in group_notes(iter(real), **kwargs)]
        except OrphanedNoteException:
            ctx.skip("group_notes raised although the model does not (C09 decides)")
            continue
        if join and any(type(x) is NoteWithTail and x.keysound_index is not None for g in grouped for x in g):
            ctx.feat("keysounded_head_joined")
        if join and len(want) < len([n for n in model if n[2] in inc_model]):
            ctx.feat("dropped_orphans")
        for up in (R.RAISE, R.KEEP, R.DROP):
            ctx.mon("roundtrip")
            key = f"sb{sb}-join{int(join)}-oh{oh}-ot{ot}-un{up}"
            try:
                back = [c09.note_tuple(n) for n in ungroup_notes(iter(grouped), orphaned_notes=OP[up])]
                types_ok = True
            except Exception as e:
                ctx.violation(f"ungroup:raised:{key}", {"exc": repr(e), "options": key}, case=case)
                continue
            if sb == R.BY_TYPE:
                ok = sorted(back, key=_k) == sorted(want, key=_k) and all(
                    back[i][0] <= back[i + 1][0] for i in range(len(back) - 1))
            else:
                ok = back == want
            if not ok:
                ctx.violation(f"ungroup:differs:{key}",
                              {"options": key, "want": repr(want)[:500], "got": repr(back)[:500]}, case=case)


def _k(n):
    return (n[0], n[1], n[2], n[3], -1 if n[4] is None else n[4])


def feature_scan(ctx, model):
    pairs, events = R.classify(model)
    # a joined tail on the same beat as a row of >= 2 notes, on a column between them
    for h, t in pairs.items():
        tb, tc = model[t][0], model[t][1]
        row = [n for i, n in enumerate(model) if n[0] == tb and i != t and i not in pairs.values()]
        if len(row) >= 2 and any(n[1] < tc for n in row) and any(n[1] > tc for n in row):
            ctx.feat("tail_same_beat_between_row_notes")
            break
    orphan_heads = {i for k, i in events if k == "head"}
    by = {}
    for i, n in enumerate(model):
        if n[2] in R.HEADS:
            by.setdefault((n[0], n[2]), []).append(i)
    for idx in by.values():
        if len(idx) >= 2 and any(i in orphan_heads for i in idx) and any(i in pairs for i in idx):
            ctx.feat("by_type_two_heads_one_orphan")
            break


def inside(ctx, case):
    from simfile.notes import Note, NoteType
    from simfile.notes.group import NoteWithTail, OrphanedNoteException, OrphanedNotes, ungroup_notes
    from simfile.timing import Beat

    items = case["items"]
    objs = []
    for b, c, kind, t, tb, ks in items:
        if kind == "T":
            objs.append(NoteWithTail(Beat(b), c, NoteType(t), Beat(tb), 0, ks))
        else:
            objs.append(Note(Beat(b), c, NoteType(t), 0, ks))
    if case["shape"] == "separate":
        grouped = [[o] for o in objs]
    else:
        grouped = []
        for o in objs:
            if grouped and grouped[-1][0].beat == o.beat:
                grouped[-1].append(o)
            else:
                grouped.append([o])
    # model: walk items in order; pending tails (beat, col); a plain/head note whose column has a pending tail
    # strictly after its position is "inside".
    def expect(policy, dropped_tails=True):
        out = []
        pending = []
        for b, c, kind, t, tb, ks in items:
            pending.sort()
            while pending and (pending[0][0], pending[0][1]) < (b, c):
                pb, pc = pending.pop(0)
                out.append((Fraction(pb), pc, "3", 0, None))
            is_inside = any(pc == c for pb, pc in pending)
            me = (Fraction(b), c, t, 0, ks)
            if is_inside:
                if policy == R.RAISE:
                    return ("raise", me)
                if policy == R.DROP:
                    if kind == "T" and dropped_tails:
                        pending.append((tb, c))
                    continue
            out.append(me)
            if kind == "T":
                pending.append((tb, c))
        pending.sort()
        out.extend((Fraction(pb), pc, "3", 0, None) for pb, pc in pending)
        return ("ok", out)

    OP = {R.RAISE: OrphanedNotes.RAISE_EXCEPTION, R.KEEP: OrphanedNotes.KEEP_ORPHAN, R.DROP: OrphanedNotes.DROP_ORPHAN}
    any_inside = False
    for pol in (R.RAISE, R.KEEP, R.DROP):
        want = expect(pol)
        if pol == R.RAISE and want[0] == "raise":
            any_inside = True
        # a dropped NoteWithTail inside another hold: whether its tail is still emitted is not specified; skip those
        also = None
        if pol == R.DROP and _drop_ambiguous(items) == "beyond":
            ctx.skip("DROP of a head lying inside a hold and ending after it: what its tail covers is unspecified")
            continue
        if pol == R.DROP and _drop_ambiguous(items):
            # a dropped joined hold nested in another one: whether its own tail is still emitted is not specified
            # (both answers accepted); every other note is still kept or dropped by the enclosing hold
            also = expect(pol, dropped_tails=False)
            ctx.feat("joined_hold_nested_in_a_joined_hold_on_its_column")
        ctx.mon("inside_hold")
        try:
            got = ("ok", [c09.note_tuple(n) for n in ungroup_notes(iter(grouped), orphaned_notes=OP[pol])])
        except OrphanedNoteException as e:
            a = e.args[0] if e.args else None
            # which note the exception carries is compared only when it carries one (a message string is fine too)
            got = ("raise", c09.note_tuple(a) if hasattr(a, "beat") else (want[1] if want[0] == "raise" else repr(a)))
        except Exception as e:
            got = ("error", repr(e))
        if got != want and got != also:
            ctx.violation(f"inside-hold:policy{pol}:{want[0]}-vs-{got[0]}",
                          {"policy": pol, "want": repr(want)[:500], "got": repr(got)[:500]})
    if any_inside:
        ctx.feat("note_inside_hold")
        if case["shape"] == "by_beat" and any(len(g) > 1 for g in grouped):
            ctx.feat("note_inside_hold_in_a_multi_note_row")


def _drop_ambiguous(items):
    """False | "nested" (a joined hold strictly inside another on its column) | "beyond" (starting inside, ending after)."""
    pending = {}
    res = False
    for b, c, kind, t, tb, ks in items:
        if c in pending and pending[c] > b and kind == "T":
            if tb >= pending[c]:
                return "beyond"
            res = "nested"
            continue
        if kind == "T":
            pending[c] = tb
    return res

"""C11 -- Beat to time conversion matches the exact timeline for all event interleavings."""
import random
from decimal import Decimal
from fractions import Fraction

from ..core import digest64
from ..gen import timing as G
from ..ref import timeline as T

LEVEL = "exploration"
DESIGN_REF = "5/C11"
TECHNIQUE = "runtime oracle on the real TimingEngine.time_at/bpm_at: exact-rational timeline; metamorphic monitors (offset shift, redundant BPM, monotonicity, query-order independence); exhaustive small grid"
LEVEL_TEXT = (
    "Engines are built the real way (SSC text -> TimingData -> TimingEngine) for every placement of up to 3 "
    "(quick) / 5 (thorough) events on a 5-beat grid and for seeded random timing data with forced coincidences, "
    "plus the corpus; every probe (event beats, warp-union ends, +-1 tick, random and negative beats, all 7 tags) "
    "is compared with an exact rational evaluation to 1e-9 s, asked in shuffled and sorted order on one engine, "
    "and re-asked on engines with a shifted offset and an inserted redundant BPM change. Exhaustive only on the grid."
)
LEVEL_NOTE = "Trusts vmon/ref/timeline.py (exact Fractions, ~90 lines, written from the property statement) and msdparser for the '#KEY:value;' texts."
RULE = (
    "grid: every subset of <=3|4 events from {BPM change at beats 1-4, stop/delay at beats 0-4, warp at beats 0-4 "
    "with length 1|2}; random: up to 40 events on the tick grid up to beat 400 with hot beats shared by kinds, "
    "BPM 1-2000, pauses 0.001-10 s, offsets +-100; corpus simfiles and charts. Non-trivial when the case has at "
    "least one event besides the first BPM; distinct by canonical JSON of the timing data."
    " Round 5: different kinds on adjacent ticks, pauses as long as a BPM value, 'nice' BPM sets with an offset putting an event boundary on time 0, engines read from SSC, SM and SM-with-FREEZES texts."
    ' Round 6: values in exponent / plus-sign spelling, SSC engines built with a chart whose timing properties are empty, 17-40 separate warps.'
    ' Round 8: timing on the chart of a version 0.7/0.70/0.83 simfile (chart without OFFSET when the offset is 0); warps shorter than half a tick.'
)
EXHAUSTIVE_PART = "all placements of <=3 (quick) / <=5 (thorough; <=4 for C12) events on the 5-beat grid"
ASSUMPTIONS = ["exact rational timeline is the specification", "float error of the engine stays below 1e-9 s for times below ~3e4 s"]
MONITORS = ["time_at", "bpm_at", "monotone", "offset_shift", "redundant_bpm", "order_independence", "timing_data_reused"]
REQUIRED = ["stop_on_delay", "nested_warps", "overlapping_warps", "touching_warps", "warp_at_beat_0",
            "stop_at_warp_start", "stop_inside_warp", "delay_inside_warp", "pause_at_warp_end",
            "bpm_change_inside_warp", "pause_at_beat_0", "negative_beat_probe", "corpus", "three_warps_one_union",
            "different_kinds_on_adjacent_ticks", "warp_one_tick_after_a_stop", "pause_seconds_equal_a_bpm_value",
            "pause_boundary_at_time_zero", "timing_read_from_sm_freezes", "values_in_exponent_or_plus_sign_spelling",
            "chart_with_empty_timing_properties_named", "timing_on_the_chart_of_a_version_0_7_simfile",
            "chart_timing_without_an_offset_of_its_own", "warp_shorter_than_half_a_tick"]
TOL = Fraction(1, 10**9)


def anchors():
    from ..core import pick

    return pick(
        "simfile.timing.engine:TimingEngine._coalesce_warps",
        "simfile.timing.engine:TimingEngine._retime_events",
        "simfile.timing.engine:TimingEngine.time_at",
        "simfile.timing.engine:TimingEngine.bpm_at",
        "simfile.timing.engine:TimingState.time_until",
        "simfile.timing.engine:TimingStateMachine.advance",
        "simfile.timing.engine:TaggedEvent.__lt__",
    )


def cases(ctx, random_n=(600, 16 * 6000), thorough_events=5):
    quick = ctx.tier == "quick"
    for i, combo in enumerate(G.grid_configs(3 if quick else thorough_events)):
        if ctx.mine(i):
            yield {"kind": "grid", "combo": combo}
    ctx.exhaustive = True
    if ctx.shard == 0:
        for name, case, ok in G.corpus_cases():
            if ok:
                yield {"kind": "corpus", "name": name, "timing": case}
            else:
                ctx.skip("corpus timing outside the domain (negative/unsorted values): " + name)
    n = ctx.split(random_n[0] if quick else random_n[1])
    for _ in range(n):
        yield {"kind": "random", "timing": G.random_case(ctx.rng)}


def probe_beats(case, tl, rng, grid):
    beats = set()
    if grid:
        for h in range(-2, 17):
            beats.add(Fraction(h, 2))
        for i in range(0, 8):
            beats.update((i - T_TICK, i + T_TICK))
    else:
        ev = {Fraction(k, 48) for key in ("bpms", "stops", "delays", "warps") for k, _ in case[key]}
        ev.update(b for _, b in tl.U)
        ev.update(Fraction(k + l, 48) for k, l in case["warps"])
        for b in ev:
            beats.update((b, b - T_TICK, b + T_TICK))
        hi = max(ev) + 8 if ev else 8
        for _ in range(8):
            d = rng.choice([1, 2, 3, 7, 48, 192, 1000])
            beats.add(Fraction(rng.randint(-10 * d, int(hi) * d), d))
        beats.update((Fraction(-1), Fraction(-7, 3)))
    return sorted(beats)


T_TICK = Fraction(1, 48)


def timing_of(case):
    return G.grid_case(case["combo"]) if case["kind"] == "grid" else case["timing"]


def check(ctx, case):
    from simfile.timing import Beat
    from simfile.timing.engine import EventTag

    timing = timing_of(case)
    n_events = sum(len(timing[k]) for k in ("bpms", "stops", "delays", "warps")) - 1
    ctx.begin(case, nontrivial=n_events >= 1, sample={"case": case, "timing": timing} if case["kind"] == "grid" else None)
    for f in G.event_features(timing):
        ctx.feat(f)
    if case["kind"] == "corpus":
        ctx.feat("corpus")
    if timing["stops"] and G.style_of(timing) == "sm-freezes":
        ctx.feat("timing_read_from_sm_freezes")
    for v in G.variant_of(timing):
        ctx.feat(v)
    rng = random.Random(digest64(timing))
    tl = G.build_timeline(timing)
    eng = G.build_engine(timing)
    beats = probe_beats(timing, tl, rng, case["kind"] == "grid")
    if beats[0] < 0:
        ctx.feat("negative_beat_probe")
    tags = list(EventTag)
    probes = [(b, t) for b in beats for t in tags]
    bb = {b: Beat(b.numerator, b.denominator) for b in beats}

    # pass 1: shuffled order on one engine; pass 2: sorted order on the same engine
    order = probes[:]
    rng.shuffle(order)
    first = {}
    for b, t in order:
        first[(b, t)] = eng.time_at(bb[b], t)
    prev = None
    max_err = Fraction(0)
    for b, t in probes:
        got = eng.time_at(bb[b], t)
        ctx.mon("time_at")
        want = tl.time(b, int(t))
        err = abs(Fraction(float(got)) - want)
        if err > max_err:
            max_err = err
        if err > TOL:
            ctx.violation(f"time_at:differs:tag{int(t)}",
                          {"beat": str(b), "tag": t.name, "got": float(got), "want": float(want), "timing": timing})
        ctx.mon("order_independence")
        if got != first[(b, t)]:
            ctx.violation("time_at:depends-on-query-order",
                          {"beat": str(b), "tag": t.name, "shuffled_pass": float(first[(b, t)]), "sorted_pass": float(got)})
        ctx.mon("monotone")
        if prev is not None and float(got) < float(prev[2]) - 1e-9:
            ctx.violation("time_at:decreases", {"at": [str(prev[0]), prev[1].name, float(prev[2])],
                                                "then": [str(b), t.name, float(got)], "timing": timing})
        prev = (b, t, got)
    # third pass: hittable() / bpm_at() on the same beat right before each question (no cross-method state)
    third = probes[:: max(1, len(probes) // 120)]
    for b, t in third:
        eng.hittable(bb[b])
        eng.bpm_at(bb[b])
        got = eng.time_at(bb[b], t)
        ctx.mon("order_independence")
        if got != first[(b, t)]:
            ctx.violation("time_at:depends-on-an-earlier-hittable-or-bpm_at-call",
                          {"beat": str(b), "tag": t.name, "alone": float(first[(b, t)]), "after_hittable": float(got), "timing": timing})
            break
    if default_differs(eng, bb, beats, tl):
        ctx.violation("time_at:default-tag-is-not-STOP", {"timing": timing})
    ctx.notes["max_abs_error_s"] = max(ctx.notes.get("max_abs_error_s", 0.0), float(max_err))

    if case["kind"] != "grid" or ctx.evaluations % 5 == 0:
        reuse_timing_data(ctx, timing, rng, bb, beats, tags)

    # bpm_at, asked backwards then forwards
    for b in list(reversed(beats)) + beats:
        ctx.mon("bpm_at")
        got = eng.bpm_at(bb[b])
        if Fraction(got) != tl.bpm(b):
            ctx.violation("bpm_at:differs", {"beat": str(b), "got": str(got), "want": str(tl.bpm(b)), "timing": timing})
            break

    # metamorphic: offset shift
    if ctx.evaluations % 3 == 0 or case["kind"] != "grid":
        d = Decimal(rng.choice(["0.125", "-3.5", "17.003", "-0.009"]))
        t2 = dict(timing, offset=str(Decimal(timing["offset"]) + d))
        e2 = G.build_engine(t2)
        for b, t in probes[:: max(1, len(probes) // 60)]:
            ctx.mon("offset_shift")
            a, c = float(eng.time_at(bb[b], t)), float(e2.time_at(bb[b], t))
            if abs((a - float(d)) - c) > 1e-9:
                ctx.violation("offset-shift:time-not-shifted", {"beat": str(b), "tag": t.name, "d": str(d), "before": a, "after": c})
                break
        # metamorphic: redundant BPM change
        taken = {k for k, _ in timing["bpms"]}
        cands = [k for key in ("stops", "delays", "warps") for k, _ in timing[key]]
        cands += [k + l // 2 for k, l in timing["warps"]] + [k + l for k, l in timing["warps"]]
        cands += [rng.randint(1, 48 * 10) for _ in range(3)]
        cands = [k for k in cands if k not in taken and k > 0]
        if cands:
            k = rng.choice(cands)
            cur = str(tl.bpm(Fraction(k, 48)))
            cur = next(v for kk, v in reversed(timing["bpms"]) if kk <= k)
            t3 = dict(timing, bpms=sorted(timing["bpms"] + [[k, cur]]))
            e3 = G.build_engine(t3)
            for b, t in probes[:: max(1, len(probes) // 80)]:
                ctx.mon("redundant_bpm")
                a, c = float(eng.time_at(bb[b], t)), float(e3.time_at(bb[b], t))
                if abs(a - c) > 1e-9 or eng.bpm_at(bb[b]) != e3.bpm_at(bb[b]):
                    ctx.violation("redundant-bpm:answers-change",
                                  {"inserted_tick": k, "bpm": cur, "beat": str(b), "tag": t.name, "before": a, "after": c,
                                   "timing": timing})
                    break


def reuse_timing_data(ctx, timing, rng, bb, beats, tags):
    """One TimingData object: engine, in-place edit (a stop appended after every event / offset changed), second engine."""
    from simfile.ssc import SSCSimfile
    from simfile.timing import Beat, BeatValue, TimingData
    from simfile.timing.engine import TimingEngine

    td = TimingData(SSCSimfile(string=G.to_text(timing)))
    e1 = TimingEngine(td)
    e1.time_at(Beat(1))  # the first engine has been built and used
    # a redundant BPM change inserted in place (not at the end) must not change any answer of the engine built before
    if len(timing["bpms"]) >= 2:
        k = timing["bpms"][1][0] - 1
        if k > 0 and all(kk != k for kk, _ in timing["bpms"]):
            before = [(float(e1.time_at(bb[b])), e1.bpm_at(bb[b])) for b in beats]
            td.bpms.insert(1, BeatValue(Beat(k, 48), Decimal(timing["bpms"][0][1])))
            after = [(float(e1.time_at(bb[b])), e1.bpm_at(bb[b])) for b in beats]
            ctx.mon("timing_data_reused")
            if before != after:
                i = next(i for i, (x, y) in enumerate(zip(before, after)) if x != y)
                ctx.violation("reuse:engine-answers-change-after-redundant-bpm-inserted-into-its-timing-data",
                              {"beat": str(beats[i]), "before": repr(before[i]), "after": repr(after[i]), "timing": timing})
                return
            e_new = TimingEngine(td)
            for b, (t0, bpm0) in zip(beats, before):
                # a new engine has one more state: times may differ in the last bits, not by more than the tolerance
                if abs(float(e_new.time_at(bb[b])) - t0) > 1e-9 or e_new.bpm_at(bb[b]) != bpm0:
                    ctx.violation("reuse:new-engine-after-redundant-bpm-differs", {"beat": str(b), "timing": timing})
                    return
            del td.bpms[1]
    last = max([k for key in ("bpms", "stops", "delays") for k, _ in timing[key]] + [k + l for k, l in timing["warps"]])
    edited = dict(timing)
    how = rng.choice(["stop", "offset", "bpm"])
    if how == "stop":
        k = last + 48
        td.stops.append(BeatValue(Beat(k, 48), Decimal("0.75")))
        edited["stops"] = timing["stops"] + [[k, "0.75"]]
    elif how == "bpm":
        k = last + 24
        td.bpms.append(BeatValue(Beat(k, 48), Decimal("333")))
        edited["bpms"] = timing["bpms"] + [[k, "333"]]
    else:
        td.offset = td.offset + Decimal("1.5")
        edited["offset"] = str(Decimal(timing["offset"]) + Decimal("1.5"))
    tl2 = G.build_timeline(edited)
    e2 = TimingEngine(td)
    probe = sorted(set(beats) | {Fraction(last + 96, 48), Fraction(last + 49, 48)})
    for b in probe:
        for t in (tags[0], tags[5], tags[6]):
            ctx.mon("timing_data_reused")
            got = float(e2.time_at(Beat(b.numerator, b.denominator), t))
            if abs(Fraction(got) - tl2.time(b, int(t))) > TOL or Fraction(e2.bpm_at(Beat(b.numerator, b.denominator))) != tl2.bpm(b):
                ctx.violation(f"reuse:engine-built-after-in-place-edit-of-timing-data-is-stale:{how}",
                              {"edit": how, "beat": str(b), "tag": t.name, "got": got, "want": float(tl2.time(b, int(t))), "timing": timing})
                return
    # offsets -1 and -2, one engine right after the other: every time differs by exactly one second
    ea = G.build_engine(dict(timing, offset="-1"))
    eb = G.build_engine(dict(timing, offset="-2"))
    for b in beats[:: max(1, len(beats) // 12)]:
        ctx.mon("timing_data_reused")
        x, y = float(ea.time_at(bb[b])), float(eb.time_at(bb[b]))
        if abs((y - x) - 1.0) > 1e-9:
            ctx.violation("offset-shift:offsets-minus-1-and-minus-2-give-the-same-times", {"beat": str(b), "offset -1": x, "offset -2": y, "timing": timing})
            return


def default_differs(eng, bb, beats, tl):
    from simfile.timing.engine import EventTag

    for b in beats:
        if b in tl.stop_beats:
            return eng.time_at(bb[b]) != eng.time_at(bb[b], EventTag.STOP)
    return False

"""C12 -- Time to beat conversion inverts beat to time on the tick grid."""
import math
import random
from fractions import Fraction

from ..core import digest64
from ..gen import timing as G
from . import c11

LEVEL = "exploration"
DESIGN_REF = "5/C12"
TECHNIQUE = "runtime oracle on the real TimingEngine.beat_at: structural inverse checks (a)-(f) from the exact timeline plus the engine's own time_at boundary floats; independence monitor across engines with redundant BPM changes; query-order monitor"
LEVEL_TEXT = (
    "For every grid placement of up to 3|4 events and seeded random timing data, beat_at is asked at the exact "
    "time_at float of every probe beat under every tag, inside every pause, at every warp-stretch boundary and at "
    "random times, on three engines (0, 1, 2 redundant BPM changes prepended), twice in different orders; the "
    "answers are judged by round trip, paused beat, half-tick window, warp start/furthest beat, monotonicity and "
    "independence. Exhaustive only on the grid."
)
LEVEL_NOTE = "Relies on C11 for time_at (boundary floats come from the engine itself) and on vmon/ref/timeline.py for the structure (warp union, pauses)."
RULE = c11.RULE + " Each case asks ~300-1500 (time, tag) questions per engine."
EXHAUSTIVE_PART = c11.EXHAUSTIVE_PART
ASSUMPTIONS = ["time_at is correct (C11)", "times stay below 1e5 s so float resolution is far below a tick"]
MONITORS = ["roundtrip", "pause_interior", "window", "warp_stretch", "monotone", "independence", "order_independence", "absolute_times", "engine_after_timing_data_edit", "engine_copies"]
REQUIRED = ["stop_inside_warp", "stop_at_warp_start", "delay_inside_warp", "pause_at_warp_end", "warp_at_beat_0",
            "bpm_change_inside_warp", "nested_warps", "touching_warps", "corpus",
            "different_kinds_on_adjacent_ticks", "warp_one_tick_after_a_stop", "pause_boundary_at_time_zero", "warp_shorter_than_half_a_tick"]
TICK = Fraction(1, 48)


def anchors():
    from ..core import pick

    return pick(
        "simfile.timing.engine:TimingEngine.beat_at",
        "simfile.timing.engine:TimingState.beats_until",
        "simfile.timing.engine:TimingEngine._retime_events",
    )


def cases(ctx):
    yield from c11.cases(ctx, random_n=(250, 16 * 4000), thorough_events=4)


def with_redundant(timing, n):
    """n redundant BPM changes on the earliest event-free ticks (value = BPM in force there)."""
    taken = {k for key in ("bpms", "stops", "delays", "warps") for k, _ in timing[key]}
    taken |= {k + l for k, l in timing["warps"]}
    bpms = list(timing["bpms"])
    k = 0
    added = 0
    while added < n:
        k += 1
        if k in taken:
            continue
        cur = next(v for kk, v in reversed(timing["bpms"]) if kk <= k)
        bpms.append([k, cur])
        added += 1
    return dict(timing, bpms=sorted(bpms))


def tick_probe_beats(timing, tl, rng, grid):
    beats = set()
    if grid:
        for h in range(-2, 17):
            beats.add(Fraction(h, 2))
        for i in range(0, 8):
            beats.update((i - TICK, i + TICK))
    else:
        ev = {Fraction(k, 48) for key in ("bpms", "stops", "delays", "warps") for k, _ in timing[key]}
        ev.update(b for _, b in tl.U)
        ev.update(Fraction(k + l, 48) for k, l in timing["warps"])
        for b in ev:
            beats.update((b, b - TICK, b + TICK))
        hi = int(max(ev)) + 8 if ev else 8
        for _ in range(8):
            beats.add(Fraction(rng.randint(-10 * 48, hi * 48), 48))
    return sorted(beats)


def specs_for(eng, tl, beats, rng_seed, tags):
    """Questions, described independently of any engine's floats: (kind, info, source, asktag).

    source says how an engine derives the time: ("time_at", beat, tag|None), ("pause", beat, f) or ("abs", t).
    Boundary questions whose time coincides on the plain engine are asked once.
    """
    from simfile.timing import Beat
    from simfile.timing.engine import EventTag

    B = lambda x: Beat(x.numerator, x.denominator)
    out = []
    seen = set()
    for x in beats:
        if not tl.in_warp(x):
            out.append(("roundtrip", x, ("time_at", x, None), None))
            # the same with an explicit tag on both conversions (every tag but WARP, which asks for the stretch start)
            tg = tags[1 + (len(out) % 6)]
            out.append(("roundtrip", x, ("time_at", x, tg), tg))
        for tag in tags:
            t = float(eng.time_at(B(x), tag))
            if t in seen:
                continue
            seen.add(t)
            out.append(("boundary", (x, int(tag)), ("time_at", x, tag), EventTag.WARP))
            out.append(("boundary", (x, int(tag)), ("time_at", x, tag), None))
            if len(seen) % 5 == 0:
                out.append(("boundary", (x, int(tag)), ("time_at", x, tag), tags[len(seen) % 7]))
    for b in tl.pause_beats():
        for f in (0.25, 0.5, 0.75, "first-ulp", "last-ulp"):
            for tag in (None, EventTag.WARP, tags[(len(out) + 1) % 7]):
                out.append(("pause", b, ("pause", b, f), tag))
    pauses = tl.pause_beats()
    for (w, e) in tl.U:
        bounds = [w] + [p for p in pauses if w < p < e] + [e]
        for lo, hi in zip(bounds, bounds[1:]):
            # both orders of asking are exercised by the two shuffled passes
            out.append(("stretch_start", (lo, hi), ("time_at", lo, EventTag.STOP_END), EventTag.WARP))
            out.append(("stretch_far", (lo, hi), ("time_at", lo, EventTag.STOP_END), None))
    rng = random.Random(rng_seed)
    tmin = float(eng.time_at(B(beats[0])))
    tmax = float(eng.time_at(B(beats[-1]), EventTag.STOP_END))
    for _ in range(24):
        t = rng.uniform(tmin - 3, tmax + 3)
        out.append(("random", None, ("abs", t), rng.choice([None, EventTag.WARP, EventTag.STOP_END, EventTag.BPM])))
    return out


def plan(eng, specs):
    """-> list of (kind, info, time float on this engine, asktag|None)"""
    from simfile.timing import Beat
    from simfile.timing.engine import EventTag

    B = lambda x: Beat(x.numerator, x.denominator)
    out = []
    for kind, info, src, asktag in specs:
        if src[0] == "abs":
            t = src[1]
        elif src[0] == "time_at":
            t = float(eng.time_at(B(src[1])) if src[2] is None else eng.time_at(B(src[1]), src[2]))
        else:
            t0 = float(eng.time_at(B(src[1]), EventTag.WARP))
            t1 = float(eng.time_at(B(src[1]), EventTag.STOP_END))
            if src[2] == "first-ulp":
                t = math.nextafter(t0, math.inf)      # strictly inside the pause, one ulp after it begins
            elif src[2] == "last-ulp":
                t = math.nextafter(t1, -math.inf)     # strictly inside the pause, one ulp before it ends
            else:
                t = t0 + src[2] * (t1 - t0)
            if not (t0 < t < t1):
                t = (t0 + t1) / 2
        out.append((kind, info, t, asktag))
    return out


def ask(eng, plan_, order):
    ans = [None] * len(plan_)
    for i in order:
        _, _, t, tag = plan_[i]
        ans[i] = eng.beat_at(t) if tag is None else eng.beat_at(t, tag)
    return ans


def check(ctx, case):
    from simfile.timing import Beat
    from simfile.timing.engine import EventTag

    timing = c11.timing_of(case)
    n_events = sum(len(timing[k]) for k in ("bpms", "stops", "delays", "warps")) - 1
    ctx.begin(case, nontrivial=n_events >= 1, sample={"case": case, "timing": timing} if case["kind"] == "grid" else None)
    for f in G.event_features(timing):
        ctx.feat(f)
    if case["kind"] == "corpus":
        ctx.feat("corpus")
    seed = digest64(timing)
    rng = random.Random(seed)
    tl = G.build_timeline(timing)
    beats = tick_probe_beats(timing, tl, rng, case["kind"] == "grid")
    tags = list(EventTag)
    engines = [G.build_engine(timing), G.build_engine(with_redundant(timing, 1)), G.build_engine(with_redundant(timing, 2))]
    answers = []
    plans = []
    specs = specs_for(engines[0], tl, beats, seed, tags)
    for ei, eng in enumerate(engines):
        p = plan(eng, specs)
        order1 = list(range(len(p)))
        rng.shuffle(order1)
        order2 = list(range(len(p)))
        rng.shuffle(order2)
        a1 = ask(eng, p, order1)
        a2 = ask(eng, p, order2)
        ctx.mon("order_independence", len(p))
        for i, (x, y) in enumerate(zip(a1, a2)):
            if x != y:
                ctx.violation("beat_at:depends-on-query-order",
                              {"engine": ei, "question": _q(p[i]), "first_pass": str(x), "second_pass": str(y), "timing": timing})
                break
        plans.append(p)
        answers.append(a1)

    p, a = plans[0], answers[0]
    per_tag = {}
    for (kind, info, t, tag), ans in zip(p, a):
        fa = Fraction(ans)
        if not (type(ans) is Beat):
            ctx.violation("beat_at:not-a-beat", {"question": _q((kind, info, t, tag)), "got": repr(ans)})
        per_tag.setdefault(tag, []).append((t, fa))
        if kind == "roundtrip":
            ctx.mon("roundtrip")
            if fa != info:
                ctx.violation("roundtrip:beat-time-beat", {"beat": str(info), "time": t, "got": str(fa), "timing": timing})
        elif kind == "pause":
            ctx.mon("pause_interior")
            if fa != info:
                ctx.violation(f"pause:interior-not-paused-beat:tag{_t(tag)}",
                              {"pause_beat": str(info), "time": t, "tag": _t(tag), "got": str(fa), "timing": timing})
        elif kind == "stretch_start":
            ctx.mon("warp_stretch")
            if fa != info[0]:
                ctx.violation("warp-stretch:WARP-tag-not-start", {"stretch": [str(info[0]), str(info[1])], "time": t,
                                                                  "got": str(fa), "timing": timing})
        elif kind == "stretch_far":
            ctx.mon("warp_stretch")
            if fa != info[1]:
                ctx.violation("warp-stretch:default-not-furthest", {"stretch": [str(info[0]), str(info[1])], "time": t,
                                                                    "got": str(fa), "timing": timing})
        if kind in ("boundary", "random", "roundtrip"):
            ctx.mon("window")
            if (fa * 48).denominator != 1:
                ctx.violation("window:not-tick-aligned", {"time": t, "got": str(fa), "timing": timing})
                continue
            bpm = min(tl.bpm(fa - TICK), tl.bpm(fa), tl.bpm(fa + TICK))
            h = Fraction(1, 96) * 60 / bpm + Fraction(1, 10**9)
            lo = tl.time(fa, 0) - h
            hi = tl.time(fa, 6) + h
            ft = Fraction(t)
            if not (lo <= ft <= hi):
                ctx.violation(f"window:asked-time-outside-answer:{kind}",
                              {"question": _q((kind, info, t, tag)), "got": str(fa), "window": [float(lo), float(hi)], "timing": timing})
    for tag, lst in per_tag.items():
        ctx.mon("monotone")
        lst.sort(key=lambda z: z[0])
        for (t1, b1), (t2, b2) in zip(lst, lst[1:]):
            if t2 > t1 and b2 < b1:
                ctx.violation(f"monotone:beat-decreases:tag{_t(tag)}",
                              {"t1": t1, "beat1": str(b1), "t2": t2, "beat2": str(b2), "timing": timing})
                break
    # two engines built back to back for offsets -1 and -2, judged at reference times (not their own time_at)
    if case["kind"] != "grid" or ctx.evaluations % 4 == 0:
        for off in ("-1", "-2"):
            t_off = dict(timing, offset=off)
            e_off = G.build_engine(t_off)
            tl_off = G.build_timeline(t_off)
            ctx.mon("absolute_times")
            for b in tl_off.pause_beats()[:6]:
                mid = (float(tl_off.time(b, 0)) + float(tl_off.time(b, 6))) / 2
                got = e_off.beat_at(mid)
                if Fraction(got) != b:
                    ctx.violation("absolute:pause-midpoint-at-reference-time-not-paused-beat",
                                  {"offset": off, "pause_beat": str(b), "time": mid, "got": str(got), "timing": timing})
                    break
            got0 = e_off.beat_at(float(tl_off.time(Fraction(-1))))
            if Fraction(got0) != -1:
                ctx.violation("absolute:beat-minus-one-at-reference-time", {"offset": off, "got": str(got0), "timing": timing})

    # an engine kept in use after the caller edited the TimingData it was built from: whatever the engine reads,
    # its two conversions must still agree with each other (beats before beat 0 included)
    if case["kind"] != "grid" or ctx.evaluations % 4 == 1:
        from decimal import Decimal
        from simfile.timing import BeatValue
        from simfile.timing.engine import TimingEngine

        td = G.build_timing_data(timing)
        old = TimingEngine(td)
        old.beat_at(0.0)
        td.offset = td.offset + Decimal("0.375")
        td.bpms[0] = BeatValue(td.bpms[0].beat, td.bpms[0].value * 2)
        TimingEngine(td)
        # copies of the engine taken after the edit (copy, deepcopy, pickle) answer like the engine they were copied from
        import copy as _copy
        import pickle as _pickle

        for label, dup in (("copy", _copy.copy(old)), ("deepcopy", _copy.deepcopy(old)), ("pickle", _pickle.loads(_pickle.dumps(old)))):
            ctx.mon("engine_copies")
            for x in (Fraction(-1), Fraction(1), Fraction(5, 2), beats[-1]):
                bx = Beat(x.numerator, x.denominator)
                if float(dup.time_at(bx)) != float(old.time_at(bx)) or dup.beat_at(1.5) != old.beat_at(1.5):
                    ctx.violation(f"copy:{label}-of-an-engine-answers-differently-from-the-engine",
                                  {"beat": str(x), "engine": float(old.time_at(bx)), "copy": float(dup.time_at(bx)), "timing": timing})
                    break
        ctx.mon("engine_after_timing_data_edit")
        for x in [b for b in beats if not tl.in_warp(b)][:: max(1, len(beats) // 25)] + [Fraction(-1), Fraction(-7, 48), Fraction(-96, 48)]:
            bx = Beat(x.numerator, x.denominator)
            back = old.beat_at(float(old.time_at(bx)))
            if Fraction(back) != x:
                ctx.violation("roundtrip:engine-disagrees-with-itself-after-its-timing-data-was-edited",
                              {"beat": str(x), "got": str(back), "timing": timing})
                break

    # independence from unrelated earlier events
    for ei in (1, 2):
        ctx.mon("independence", len(p))
        for q, x, y in zip(p, a, answers[ei]):
            if x != y:
                ctx.violation("independence:answer-changes-with-redundant-bpm",
                              {"redundant_bpm_changes": ei, "question": _q(q), "plain": str(x), "with_redundant": str(y), "timing": timing})
                break


def _t(tag):
    return "default" if tag is None else tag.name


def _q(item):
    kind, info, t, tag = item
    return {"kind": kind, "info": repr(info), "time": t, "tag": _t(tag)}

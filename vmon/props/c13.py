"""C13 -- Hittability and note timing follow the warp rules exactly."""
import random
from fractions import Fraction

from ..core import digest64
from ..gen import timing as G
from . import c11

LEVEL = "exploration"
DESIGN_REF = "5/C13"
TECHNIQUE = "runtime oracle on the real TimingEngine.hittable and time_notes: warp-union rule from the exact timeline; expected timed-note list computed from generated cells; query-order monitor"
LEVEL_TEXT = (
    "hittable is asked on every tick of the 5-beat grid (-1..9 beats) for every placement of up to 3|4 events and "
    "on the ticks around every event / inside every warp of seeded random timing data, in two orders; time_notes "
    "is run on generated routine and keysounded note data placed on and around the events under all three "
    "UnhittableNotes options and compared item by item (order, time to 1e-9 s, every note field). Exhaustive only "
    "on the grid."
)
LEVEL_NOTE = "Trusts vmon/ref/timeline.py and the cell renderer of vmon/gen/notes.py; relies on C07 only for NoteData's decoding of those texts (cross-checked here against the generated note list)."
RULE = c11.RULE + " For time_notes each case carries a generated chart (1-3 players, keysounds) with notes on event beats, +-1 tick, inside warps."
EXHAUSTIVE_PART = c11.EXHAUSTIVE_PART + "; hittable on every tick from beat -1 to beat 9"
ASSUMPTIONS = ["exact rational timeline is the specification", "NoteData decodes the generated text (C07)"]
MONITORS = ["hittable", "hittable_off_grid", "time_notes", "order_independence", "timing_data_reused"]
REQUIRED = ["routine_tap_in_warp", "keysounded_tap_in_warp", "pause_in_warp_note", "non_tap_in_warp",
            "stop_inside_warp", "delay_inside_warp", "three_warps_one_union", "two_unhittable_notes_across_pause", "corpus",
            "off_grid_note_right_after_a_pause", "more_than_16_separate_warp_segments", "off_grid_query_inside_warp"]
TICK = Fraction(1, 48)


def anchors():
    from ..core import pick

    return pick(
        "simfile.timing.engine:TimingEngine.hittable",
        "simfile.notes.timed:time_notes",
        "simfile.timing.engine:TimingEngine._coalesce_warps",
    )


def cases(ctx):
    yield from c11.cases(ctx, random_n=(350, 16 * 5000))


def render(notes, columns):
    """notes: sorted [(player, tick, col, ch, ks)] -> text (192 rows for measures with notes, 4 otherwise)."""
    out = []
    maxp = max((n[0] for n in notes), default=0)
    for p in range(maxp + 1):
        if p:
            out.append("&\n")
        pn = [n for n in notes if n[0] == p]
        last_m = max((n[1] // 192 for n in pn), default=0)
        for m in range(last_m + 1):
            if m:
                out.append(",\n")
            mn = {}
            for n in pn:
                if n[1] // 192 == m:
                    mn.setdefault(n[1] % 192, []).append(n)
            if not mn:
                out.append(("0" * columns + "\n") * 4)
                continue
            step = 1
            for cand in (48, 24, 12, 4):
                if all(r % cand == 0 for r in mn):
                    step = cand
                    break
            for r in range(0, 192, step):
                row = ["0"] * columns
                for n in mn.get(r, []):
                    row[n[2]] = n[3] + (f"[{n[4]}]" if n[4] is not None else "")
                out.append("".join(row) + "\n")
    return "".join(out)


def gen_notes(rng, timing, tl, grid):
    columns = rng.choice([2, 4, 4, 6])
    players = rng.choice([1, 1, 2, 3])
    ks_on = rng.random() < 0.5
    ticks = set()
    if grid:
        ticks.update(range(0, 8 * 48 + 1, 24))
        for i in range(0, 8):
            ticks.update((i * 48 + 1, max(0, i * 48 - 1)))
    else:
        ev = {k for key in ("bpms", "stops", "delays", "warps") for k, _ in timing[key]}
        ev |= {k + l for k, l in timing["warps"]}
        for k in ev:
            ticks.update((k, k + 1, max(0, k - 1)))
        for (a, b) in tl.U:
            a, b = int(a * 48), int(b * 48)
            for _ in range(3):
                ticks.add(rng.randint(a, max(a, b - 1)))
        for _ in range(6):
            ticks.add(rng.randint(0, max(ev) + 96 if ev else 192))
    notes = []
    for p in range(players):
        for k in sorted(ticks):
            if rng.random() < (0.8 if grid else 0.9):
                for c in sorted(rng.sample(range(columns), rng.randint(1, 2))):
                    ch = rng.choice("1111234MLFAK")
                    ks = rng.randint(0, 40) if ks_on and rng.random() < 0.6 else None
                    notes.append((p, k, c, ch, ks))
    return columns, notes


def check(ctx, case):
    from simfile.notes import Note, NoteData, NoteType
    from simfile.notes.timed import TimedNote, UnhittableNotes, time_notes
    from simfile.ssc import SSCSimfile
    from simfile.timing import Beat, TimingData

    timing = c11.timing_of(case)
    n_events = sum(len(timing[k]) for k in ("bpms", "stops", "delays", "warps")) - 1
    ctx.begin(case, nontrivial=n_events >= 1, sample={"case": case, "timing": timing} if case["kind"] == "grid" else None)
    for f in G.event_features(timing):
        ctx.feat(f)
    if case["kind"] == "corpus":
        ctx.feat("corpus")
    rng = random.Random(digest64(timing))
    tl = G.build_timeline(timing)
    eng = G.build_engine(timing)
    grid = case["kind"] == "grid"

    # ---- hittable
    if grid:
        ticks = list(range(-48, 9 * 48 + 1))
    else:
        ev = {k for key in ("bpms", "stops", "delays", "warps") for k, _ in timing[key]}
        ev |= {k + l for k, l in timing["warps"]}
        ticks = set()
        for k in ev:
            ticks.update(range(k - 3, k + 4))
        for (a, b) in tl.U:
            a, b = int(a * 48), int(b * 48)
            if b - a <= 200:
                ticks.update(range(a, b + 1))
            else:
                ticks.update(rng.randint(a, b) for _ in range(50))
        ticks.update(rng.randint(-96, (max(ev) if ev else 0) + 96) for _ in range(20))
        ticks = sorted(ticks)
    order = ticks[:]
    rng.shuffle(order)
    first = {k: eng.hittable(Beat(k, 48)) for k in order}
    for k in ticks:
        ctx.mon("hittable")
        got = eng.hittable(Beat(k, 48))
        want = tl.hittable(Fraction(k, 48))
        if got is not want:
            ctx.violation("hittable:differs", {"beat_ticks": k, "beat": str(Fraction(k, 48)), "got": repr(got), "want": want, "timing": timing})
            break
        ctx.mon("order_independence")
        if first[k] is not got:
            ctx.violation("hittable:depends-on-query-order", {"beat_ticks": k, "shuffled": repr(first[k]), "sorted": repr(got)})
            break

    # ---- hittable between ticks: the rule speaks of "a beat", and note data with 64, 128, 200 ... rows per measure puts
    # notes between ticks. Asked less than a tick before and after every pause, warp start and warp end.
    offs = (Fraction(1, 64), Fraction(1, 200), Fraction(1, 1000), Fraction(1, 49), Fraction(47, 48 * 48))
    pts = {k for key in ("stops", "delays", "warps") for k, _ in timing[key]} | {k + l for k, l in timing["warps"]}
    pts = sorted(pts) if len(pts) <= 24 else rng.sample(sorted(pts), 24)
    done = False
    for k in pts:
        for d in offs:
            for x in (Fraction(k, 48) + d, Fraction(k, 48) - d):
                ctx.mon("hittable_off_grid")
                got = eng.hittable(Beat(x))
                want = tl.hittable(x)
                if tl.in_warp(x):
                    ctx.feat("off_grid_query_inside_warp")
                if got is not want:
                    ctx.violation("hittable:differs-between-ticks", {"beat": str(x), "nearest_event_tick": k, "got": repr(got), "want": want, "timing": timing})
                    done = True
                    break
            if done:
                break
        if done:
            break

    # ---- time_notes
    if grid and ctx.evaluations % 2:
        return
    columns, notes = gen_notes(rng, timing, tl, grid)
    text = render(notes, columns)
    td = G.build_timing_data(timing)
    nd = NoteData(text)
    decoded = list(nd)
    if [(n.player, int(n.beat * 48), n.column, n.note_type.value, n.keysound_index) for n in decoded] != sorted(notes):
        ctx.skip("NoteData decoded the generated text differently (C07's business)")
        return
    un = [n for n in decoded if not tl.hittable(Fraction(n.beat))]
    for n in un:
        if n.note_type is NoteType.TAP and n.player:
            ctx.feat("routine_tap_in_warp")
        if n.note_type is NoteType.TAP and n.keysound_index is not None:
            ctx.feat("keysounded_tap_in_warp")
        if n.note_type is not NoteType.TAP:
            ctx.feat("non_tap_in_warp")
    if any(tl.in_warp(Fraction(n.beat)) and tl.hittable(Fraction(n.beat)) for n in decoded):
        ctx.feat("pause_in_warp_note")
    # a run of consecutive unhittable notes whose times differ (pause or gap between them, no hittable note between)
    prev = None
    for n in decoded:
        if tl.hittable(Fraction(n.beat)):
            prev = None
            continue
        if prev is not None and tl.time(Fraction(prev.beat)) != tl.time(Fraction(n.beat)) and prev.player == n.player:
            ctx.feat("two_unhittable_notes_across_pause")
        prev = n
    # off-grid notes (rows of a 5-, 7- or 256-row measure are not multiples of 1/48 beat) right after the pauses
    from simfile.notes import Note as _Note

    extra = []
    if not grid or ctx.evaluations % 3 == 0:
        for (pb, _v) in (tl.stops + tl.delays)[:4]:
            for rows in (256, 5, 7):
                m = int(pb // 4)
                r = int((pb - 4 * m) * rows / 4) + 1
                if r < rows:
                    extra.append(_Note(Beat(4 * m * rows + 4 * r, rows), 0, NoteType.TAP))
        if extra:
            ctx.feat("off_grid_note_right_after_a_pause")
    for opt in UnhittableNotes:
        ctx.mon("time_notes")
        want = []
        for n in decoded:
            b = Fraction(n.beat)
            if tl.hittable(b) or opt is UnhittableNotes.KEEP_NOTE:
                want.append((tl.time(b), n))
            elif opt is UnhittableNotes.TAP_TO_FAKE and n.note_type is NoteType.TAP:
                want.append((tl.time(b), n._replace(note_type=NoteType.FAKE)))
        kwargs = {} if (opt is UnhittableNotes.TAP_TO_FAKE and ctx.evaluations % 4 == 0) else {"unhittable_notes": opt}
        got = list(time_notes(nd, td, **kwargs))
        if extra:
            # a second, tiny chart holding only the off-grid notes (one measure each, built with from_notes)
            for n in extra:
                one = NoteData.from_notes([n], 1)
                b = Fraction(n.beat)
                g1 = list(time_notes(one, td, UnhittableNotes.KEEP_NOTE))
                if not (len(g1) == 1 and abs(Fraction(float(g1[0].time)) - tl.time(b)) <= Fraction(1, 10**9)):
                    ctx.violation("time_notes:off-grid-note", {"beat": str(b), "got": repr(g1), "want_time": float(tl.time(b)), "timing": timing})
                    break
        ok = len(got) == len(want)
        bad = None
        if ok:
            for g, (wt, wn) in zip(got, want):
                if not (type(g) is TimedNote and type(g.note) is Note and g.note == wn
                        and abs(Fraction(float(g.time)) - wt) <= Fraction(1, 10**9)):
                    ok = False
                    bad = {"got": repr(g), "want_time": float(wt), "want_note": repr(wn)}
                    break
        if not ok:
            ctx.violation(f"time_notes:{opt.name}", {"n_got": len(got), "n_want": len(want), "first_bad": bad,
                                                     "timing": timing, "text": text[:400]})
    # two timing data that differ only in their offsets, -1 and -2, timed one right after the other
    from decimal import Decimal as _D

    ta, tb = G.build_timing_data(dict(timing, offset="-1")), G.build_timing_data(dict(timing, offset="-2"))
    na = list(time_notes(nd, ta, UnhittableNotes.KEEP_NOTE))
    nb = list(time_notes(nd, tb, UnhittableNotes.KEEP_NOTE))
    ctx.mon("timing_data_reused")
    for x, y in zip(na, nb):
        if abs((float(y.time) - float(x.time)) - 1.0) > 1e-9:
            ctx.violation("time_notes:offsets-minus-1-and-minus-2-give-the-same-times", {"note": repr(x.note), "offset -1": float(x.time), "offset -2": float(y.time), "timing": timing})
            break
    # the same TimingData object after an in-place change of its offset
    ctx.mon("timing_data_reused")
    from decimal import Decimal

    td.offset = td.offset + Decimal("2.25")
    again = list(time_notes(nd, td, UnhittableNotes.KEEP_NOTE))
    for g, n in zip(again, decoded):
        if abs(Fraction(float(g.time)) - (tl.time(Fraction(n.beat)) - Fraction(9, 4))) > Fraction(1, 10**9):
            ctx.violation("time_notes:stale-after-in-place-offset-change", {"note": repr(n), "got": float(g.time),
                                                                           "want": float(tl.time(Fraction(n.beat)) - Fraction(9, 4)), "timing": timing})
            break

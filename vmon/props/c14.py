"""C14 -- Beats are exact fractions that snap to the 1/48 grid only from inexact input."""
from decimal import Decimal
from fractions import Fraction
import operator

LEVEL = "exploration"
DESIGN_REF = "5/C14"
TECHNIQUE = "runtime oracle on the real Beat/BeatValues/TimingData: exact Fraction/Decimal reference; exhaustive tick grid +-2000 beats"
LEVEL_TEXT = (
    "Every tick multiple within +-2000 beats is enumerated (text round trip), the other clauses are "
    "decided on seeded random executions against exact Fraction/Decimal arithmetic; held means held on "
    "the counted executions, exhaustive only on the tick grid."
)
LEVEL_NOTE = "Trusts CPython fractions/decimal as the exact reference and msdparser as tokenizer for the TimingData clause."
RULE = (
    "kinds: tick_text (all k/48, |k|<=96000, plus random |k|<=48e7), construct (int/Fraction/pair), "
    "inexact (float/Decimal/decimal string), history (one numeric value built through exact and inexact forms in random order within one process), arith (pairs of fractions den<=1000 x 9 operators x operand "
    "types), beatvalues (random event lists, six-place decimals), timing_string (blanks/line breaks "
    "around rows), timingdata (strings through a parsed SM/SSC simfile). A case is non-trivial unless it "
    "is the zero beat / empty list; distinct by its canonical JSON."
    ' Round 5: rows out of beat order.'
    ' Round 6: inputs of float/Decimal/str subclasses (SongTime), slices and copies of BeatValues.'
    ' Round 7: pairs with a negative denominator (==, hash, order).'
    ' Round 8: zero and one as operands.'
)
EXHAUSTIVE_PART = "tick_text over every k/48 with |k| <= 96000 (192001 beats)"
ASSUMPTIONS = [
    "fractions.Fraction and decimal.Decimal are exact",
    "msdparser tokenizes '#KEY:value;' texts without the excluded metacharacters correctly",
]
MONITORS = ["tick_text", "construct", "inexact", "arith", "history", "beatvalues", "beatvalues_inplace_edit", "beatvalues_slice", "timing_string", "timingdata"]
REQUIRED = ["two_events_on_one_beat", "arith_mixed_int", "arith_mixed_fraction", "inexact_half_tick_boundary", "timing_string_linebreaks",
            "rows_not_in_beat_order_timing_string", "rows_not_in_beat_order_timingdata", "inexact_value_of_a_subclass", "pair_with_negative_denominator", "arith_with_a_zero_operand"]

TICK_LIMIT = 96000


def anchors():
    from ..core import pick

    return pick(
        "simfile.timing:Beat.__new__",
        "simfile.timing:Beat.round_to_tick",
        "simfile.timing:Beat.from_str",
        "simfile.timing:Beat.__str__",
        "simfile.timing:BeatValues.from_str",
        "simfile.timing:BeatValues.__str__",
        "simfile.timing:TimingData.__init__",
    )


# ---------------------------------------------------------------- generators


def rfrac(rng, maxden=1000, span=3000):
    d = rng.randint(1, maxden)
    return [rng.randint(-span * d, span * d), d]


def rdec_str(rng, places=None, span=100000, signed=True):
    p = rng.randint(0, 6) if places is None else places
    ip = rng.choice([0, 1, rng.randint(0, 999), rng.randint(0, span)])
    s = str(ip)
    if p:
        s += "." + "".join(rng.choice("0123456789") for _ in range(p))
    if signed and rng.random() < 0.3:
        s = "-" + s
    return s


WS = [" ", "\t", "\n", "\r\n", "  ", "\n\n", " \n ", ""]


def cases(ctx):
    rng = ctx.rng
    quick = ctx.tier == "quick"
    # exhaustive tick grid, in blocks
    block = 4000
    idx = 0
    for k0 in range(-TICK_LIMIT, TICK_LIMIT + 1, block):
        if ctx.mine(idx):
            yield {"kind": "tick_text", "k0": k0, "k1": min(k0 + block, TICK_LIMIT + 1)}
        idx += 1
    ctx.exhaustive = True
    n = ctx.split(3000 if quick else 16 * 200000)
    for _ in range(n // 10):
        yield {"kind": "tick_text_list", "ks": [rng.randint(-48 * 10**7, 48 * 10**7) for _ in range(40)]}
    for i in range(n // 6):
        # the same numeric value built through different forms, in a random order, in one process
        if rng.random() < 0.5:
            d = rng.choice([10, 100, 1000, 8, 64, 5, 20])
        else:
            d = rng.choice([3, 7, 48, 96, 1000])
        v = [rng.randint(-3 * d, 40 * d), d]
        forms = ["fraction", "pair", "decimal", "decstr", "float", "arith", "beat"]
        rng.shuffle(forms)
        yield {"kind": "history", "v": v, "forms": forms[: rng.randint(2, 7)]}
    for i in range(n):
        r = i % 6
        if r == 0:
            form = rng.choice(["int", "fraction", "pair", "pair", "beat", "fracpair"])
            c = {"kind": "construct", "form": form, "a": rfrac(rng, 5000, 20000)}
            if form == "fracpair":
                c["b"] = rfrac(rng, 50, 5)
                if c["b"][0] == 0:
                    c["b"][0] = 1
            yield c
        elif r == 1:
            form = rng.choice(["float", "float_boundary", "decimal", "decstr", "float_big", "decstr_boundary"])
            if form == "float":
                v = repr(rng.uniform(-5000, 5000))
            elif form == "float_big":
                v = repr(rng.uniform(-1e7, 1e7))
            elif form in ("float_boundary", "decstr_boundary"):
                # just around a half-tick boundary (k + 1/2)/48
                k = rng.randint(-96000, 96000)
                eps = rng.choice([0, 1e-9, -1e-9, 1e-6, -1e-6, 1e-4, -1e-4])
                x = (k + 0.5) / 48 + eps
                v = repr(x) if form == "float_boundary" else f"{x:.7f}"
            else:
                v = rdec_str(rng)
            yield {"kind": "inexact", "form": form, "v": v}
        elif r in (2, 3):
            za, zb = rng.random() < 0.08, rng.random() < 0.08   # zero (and one) operands: the identity elements
            yield {
                "kind": "arith",
                "a": [0, rng.choice([1, 3, 48])] if za else ([1, 1] if rng.random() < 0.03 else rfrac(rng)),
                "b": [0, rng.choice([1, 5])] if zb else ([1, 1] if rng.random() < 0.03 else rfrac(rng)),
                "btype": rng.choice(["beat", "int", "fraction", "beat"]),
                "side": rng.choice(["left", "right"]),
            }
        elif r == 4:
            m = rng.choice([0, 1, 2, 5, 12])
            evs = []
            k = rng.randint(-200, 2000)
            for _ in range(m):
                evs.append([k, rdec_str(rng)])
                k += rng.choice([0, 1, rng.randint(1, 4000)]) if rng.random() < 0.3 else rng.randint(1, 4000)
            if len(evs) >= 2 and rng.random() < 0.2:
                rng.shuffle(evs)
            yield {"kind": "beatvalues", "events": evs}
        else:
            m = rng.choice([0, 1, 3, 8])
            evs = []
            k = 0
            for _ in range(m):
                evs.append([k, rdec_str(rng, signed=False)])
                k += 0 if rng.random() < 0.15 else rng.randint(1, 2000)
            if len(evs) >= 2 and rng.random() < 0.25:
                # rows written out of beat order: the list is whatever the string says, in the order it says it
                rng.shuffle(evs) if rng.random() < 0.5 else evs.reverse()
            rows = [rng.choice(WS) + _beat3(e[0]) + "=" + e[1] + rng.choice(WS) for e in evs]
            text = ",".join(rows) if rows else rng.choice(["", " ", "\n", "\r\n \t"])
            yield {
                "kind": rng.choice(["timing_string", "timingdata"]),
                "events": evs,
                "text": text,
                "field": rng.choice(["BPMS", "STOPS", "DELAYS", "WARPS", "FREEZES"]),
                "fmt": rng.choice(["sm", "ssc"]),
                "offset": rng.choice([None, "", rdec_str(rng, places=rng.choice([3, 6]), span=100)]),
            }


def _beat3(k):
    return f"{k / 48:.3f}"


# ---------------------------------------------------------------- oracle


def check(ctx, case):
    from simfile.timing import Beat, BeatValue, BeatValues, TimingData

    kind = case["kind"]
    if kind in ("tick_text", "tick_text_list"):
        ks = range(case["k0"], case["k1"]) if kind == "tick_text" else case["ks"]
        ctx.begin(case, nontrivial=False)
        ctx.evaluations += len(ks) - 1
        if kind == "tick_text" and case["k0"] == 0:
            ctx.add_sample({"kind": "tick_text", "k": 7, "beat": "7/48", "str": str(Beat(7, 48)), "back": str(Beat.from_str(str(Beat(7, 48))))})
        for k in ks:
            ctx.mon("tick_text")
            ctx.digests.add(hash(("tick", k)) & 0xFFFFFFFFFFFFFFFF)
            b = Beat(k, 48)
            s = str(b)
            back = Beat.from_str(s)
            if not (type(back) is Beat and back == Fraction(k, 48)):
                ctx.violation("tick_text:roundtrip", {"k": k, "str": s, "back": repr(back)},
                              case={"kind": "tick_text_list", "ks": [k]})
            # three-decimal form
            if not _three_decimals(s):
                ctx.violation("tick_text:format", {"k": k, "str": s}, case={"kind": "tick_text_list", "ks": [k]})
        if kind == "tick_text_list":
            ctx.feat("tick_text_random_far")
        return

    if kind == "construct":
        n, d = case["a"]
        exact = Fraction(n, d)
        form = case["form"]
        ctx.begin(case, nontrivial=n != 0)
        ctx.mon("construct")
        ctx.feat("construct_" + form)
        if form == "int":
            exact = Fraction(n)
            b = Beat(n)
        elif form == "fraction":
            b = Beat(Fraction(n, d))
        elif form == "pair":
            if (n + d) % 3 == 0:
                b = Beat(-n, -d)   # the same rational written with a negative denominator
                ctx.feat("pair_with_negative_denominator")
            else:
                b = Beat(n, d)
        elif form == "beat":
            b = Beat(Beat(n, d))
        else:
            bn, bd = case["b"]
            exact = Fraction(Fraction(n, d), Fraction(bn, bd))
            b = Beat(Fraction(n, d), Fraction(bn, bd))
        ctx.expect(type(b) is Beat and Fraction(b.numerator, b.denominator) == exact and b == exact and hash(b) == hash(exact)
                   and b.denominator > 0 and (b < exact + 1) and not (b < exact),
                   "construct:" + form, expected=str(exact), got=repr(b), type=type(b).__name__)
        return

    if kind == "inexact":
        form, v = case["form"], case["v"]
        ctx.begin(case)
        ctx.mon("inexact")
        ctx.feat("inexact_" + form)
        # every third value arrives as an instance of a subclass (a float subclass such as the library's own SongTime,
        # a Decimal or str subclass): still a float, a decimal, a decimal string
        from ..core import digest64

        sub = digest64([form, v]) % 3 == 0
        if sub:
            ctx.feat("inexact_value_of_a_subclass")
        if form.startswith("float"):
            x = float(v)
            exact = Fraction(x)
            if sub:
                from simfile.timing.engine import SongTime

                x = SongTime(x) if digest64(v) % 2 else type("MyFloat", (float,), {})(x)
            b = Beat(x)
        elif form == "decimal":
            exact = Fraction(Decimal(v))
            b = Beat(type("MyDecimal", (Decimal,), {})(v) if sub else Decimal(v))
        else:
            exact = Fraction(Decimal(v))
            sv = type("MyStr", (str,), {})(v) if sub else v
            b = Beat(sv) if ctx.evaluations % 2 else Beat.from_str(sv)
        if "boundary" in form:
            ctx.feat("inexact_half_tick_boundary")
        fb = Fraction(b.numerator, b.denominator)
        ok = type(b) is Beat and (fb * 48).denominator == 1 and abs(fb - exact) <= Fraction(1, 96)
        ctx.expect(ok, "inexact:" + form, input=v, got=repr(b), frac=str(fb), exact=str(exact))
        return

    if kind == "arith":
        _arith(ctx, case, Beat)
        return

    if kind == "history":
        n, d = case["v"]
        exact = Fraction(n, d)
        ctx.begin(case, nontrivial=n != 0)
        dec_ok = all(p in (2, 5) for p in _prime_factors(exact.denominator))
        for form in case["forms"]:
            inexact = False
            if form == "fraction":
                b = Beat(Fraction(n, d))
            elif form == "pair":
                b = Beat(n, d)
            elif form == "beat":
                b = Beat(Beat(n, d))
            elif form == "arith":
                b = Beat(n - 1, d) + Beat(1, d)
            elif form == "float":
                if float(exact) != exact:
                    continue
                b, inexact = Beat(float(exact)), True
            else:
                if not dec_ok:
                    continue
                dv = Decimal(n) / Decimal(d)
                if Fraction(dv) != exact:
                    continue
                b, inexact = (Beat(dv) if form == "decimal" else Beat(str(dv))), True
            ctx.mon("history")
            ctx.feat("history_" + form)
            fb = Fraction(b.numerator, b.denominator)
            if inexact:
                ok = type(b) is Beat and (fb * 48).denominator == 1 and abs(fb - exact) <= Fraction(1, 96)
            else:
                ok = type(b) is Beat and fb == exact
            ctx.expect(ok, "history:" + form, value=str(exact), forms=case["forms"], got=repr(b), frac=str(fb))
        return

    if kind in ("beatvalues", "timing_string", "timingdata") and len({e[0] for e in case["events"]}) < len(case["events"]):
        ctx.feat("two_events_on_one_beat")
    if kind == "beatvalues":
        evs = case["events"]
        ctx.begin(case, nontrivial=bool(evs))
        ctx.mon("beatvalues")
        bv = BeatValues([BeatValue(Beat(k, 48), Decimal(v)) for k, v in evs])
        text = str(bv)
        back = BeatValues.from_str(text)
        ok = type(back) is BeatValues and len(back) == len(evs)
        if ok:
            for (k, v), e in zip(evs, back):
                if not (type(e.beat) is Beat and e.beat == Fraction(k, 48)
                        and type(e.value) is Decimal and e.value == Decimal(v)):
                    ok = False
        ctx.expect(ok and back == bv, "beatvalues:roundtrip", text=text, back=repr(back))
        ctx.expect(str(back) == text, "beatvalues:restringify", text=text, again=str(back))
        # a part of the list (a slice, a copy, a concatenation) is again a list of timing events: written out and
        # parsed back it is unchanged
        if len(bv) >= 2:
            ctx.mon("beatvalues_slice")
            for label, part, want in (("[1:]", bv[1:], list(bv)[1:]), ("[:-1]", bv[:-1], list(bv)[:-1]), ("[::2]", bv[::2], list(bv)[::2]),
                                      ("copy()", bv.copy(), list(bv)), ("+", bv[:1] + bv[1:], list(bv))):
                try:
                    ok2 = list(BeatValues.from_str(str(part))) == want and list(part) == want
                except Exception as e:
                    ok2 = False
                    part = repr(e)
                if not ok2:
                    ctx.violation(f"beatvalues:slice{label}:does-not-write-out-as-timing-events", {"type": type(part).__name__, "text": str(part)[:200]})
                    break
        # the same list object edited in place after it has been written once: the text must follow
        import random as _r

        rng = _r.Random(len(text) * 7 + len(evs))
        extra = BeatValue(Beat(7, 48), Decimal("9.5"))
        for _ in range(3):
            op = rng.choice(["pop", "remove", "reverse", "clear", "sort", "iadd", "imul", "insert", "append", "extend", "setitem", "delitem"])
            if op in ("pop", "remove", "setitem", "delitem") and not bv:
                op = "append"
            if op == "pop":
                bv.pop(rng.randrange(len(bv)))
            elif op == "remove":
                bv.remove(bv[rng.randrange(len(bv))])
            elif op == "reverse":
                bv.reverse()
            elif op == "clear":
                bv.clear()
            elif op == "sort":
                bv.sort()
            elif op == "iadd":
                bv += [extra]
            elif op == "imul":
                bv *= 2
            elif op == "insert":
                bv.insert(0, extra)
            elif op == "append":
                bv.append(extra)
            elif op == "extend":
                bv.extend([extra, extra])
            elif op == "setitem":
                bv[rng.randrange(len(bv))] = extra
            else:
                del bv[rng.randrange(len(bv))]
            ctx.mon("beatvalues_inplace_edit")
            t2 = str(bv)
            b2 = BeatValues.from_str(t2)
            if not (list(b2) == list(bv)):
                ctx.violation(f"beatvalues:text-stale-after-{op}", {"op": op, "text": t2, "list": repr(bv)[:300]})
                break
        return

    if kind in ("timing_string", "timingdata"):
        evs, text = case["events"], case["text"]
        ctx.begin(case, nontrivial=bool(evs))
        if any(c in text for c in "\r\n"):
            ctx.feat("timing_string_linebreaks")
        expected = [(Fraction(k, 48), Decimal(v)) for k, v in evs]
        if any(a[0] > b[0] for a, b in zip(evs, evs[1:])):
            ctx.feat("rows_not_in_beat_order_" + kind)
        if kind == "timing_string":
            ctx.mon("timing_string")
            got = BeatValues.from_str(text)
            ctx.expect(_same_events(got, expected, Beat), "timing_string:parse", text=text, got=repr(got))
            return
        ctx.mon("timingdata")
        from simfile.sm import SMSimfile
        from simfile.ssc import SSCSimfile

        field, fmt = case["field"], case["fmt"]
        if field == "FREEZES" and fmt == "ssc":
            field = "STOPS"
        # the simfile goes through the real parser; MSD text must not contain CR alone etc. -- it doesn't
        parts = []
        if fmt == "ssc":
            parts.append("#VERSION:0.83;")
        if case["offset"] is not None:
            parts.append(f"#OFFSET:{case['offset']};")
        others = [f for f in ("BPMS", "STOPS", "DELAYS", "WARPS") if f != field and not (field == "FREEZES" and f == "STOPS")]
        parts.append(f"#{field}:{text};")
        other_text = "0.000=120.000,\n4.000=60.5"
        for f in others:
            parts.append(f"#{f}:{other_text};")
        cls = SMSimfile if fmt == "sm" else SSCSimfile
        sf = cls(string="\n".join(parts))
        td = TimingData(sf)
        attr = {"BPMS": "bpms", "STOPS": "stops", "FREEZES": "stops", "DELAYS": "delays", "WARPS": "warps"}[field]
        ctx.feat("timingdata_" + field.lower() + "_" + fmt)
        ctx.expect(_same_events(getattr(td, attr), expected, Beat), "timingdata:field",
                   field=field, fmt=fmt, text=text, got=repr(getattr(td, attr)))
        other_expected = [(Fraction(0), Decimal("120.000")), (Fraction(4), Decimal("60.5"))]
        for f in others:
            ctx.expect(_same_events(getattr(td, f.lower()), other_expected, Beat), "timingdata:other-field",
                       field=f, got=repr(getattr(td, f.lower())))
        off = case["offset"]
        want = Decimal(off) if off else Decimal(0)
        ctx.expect(type(td.offset) is Decimal and td.offset == want, "timingdata:offset",
                   offset=off, got=repr(td.offset))
        return
    raise ValueError(kind)


def _prime_factors(n):
    out, p = set(), 2
    while n > 1 and p * p <= n:
        while n % p == 0:
            out.add(p)
            n //= p
        p += 1
    if n > 1:
        out.add(n)
    return out


def _three_decimals(s):
    t = s[1:] if s.startswith("-") else s
    ip, dot, fp = t.partition(".")
    return dot == "." and ip.isdigit() and len(fp) == 3 and fp.isdigit()


def _same_events(got, expected, Beat):
    if len(got) != len(expected):
        return False
    for e, (b, v) in zip(got, expected):
        if not (type(e.beat) is Beat and e.beat == b and type(e.value) is Decimal and e.value == v):
            return False
    return True


BINOPS = {
    "+": operator.add, "-": operator.sub, "*": operator.mul, "/": operator.truediv,
    "%": operator.mod, "divmod": divmod,
}


def _arith(ctx, case, Beat):
    (an, ad), (bn, bd) = case["a"], case["b"]
    fa, fb = Fraction(an, ad), Fraction(bn, bd)
    btype, side = case["btype"], case["side"]
    if btype == "int":
        fb = Fraction(bn // bd)
        other = bn // bd
        ctx.feat("arith_mixed_int")
    elif btype == "fraction":
        other = Fraction(bn, bd)
        ctx.feat("arith_mixed_fraction")
    else:
        other = Beat(bn, bd)
    a = Beat(an, ad)
    if fa == 0 or fb == 0:
        ctx.feat("arith_with_a_zero_operand")
    ctx.begin(case, nontrivial=fa != 0 and fb != 0)
    for name, op in BINOPS.items():
        x, y, fx, fy = (a, other, fa, fb) if side == "left" else (other, a, fb, fa)
        if name in ("/", "%", "divmod") and fy == 0:
            ctx.skip("division by zero")
            continue
        ctx.mon("arith")
        want = op(fx, fy)
        got = op(x, y)
        if name == "divmod":
            ok = got[0] == want[0] and type(got[1]) is Beat and Fraction(got[1].numerator, got[1].denominator) == want[1]
        else:
            ok = type(got) is Beat and Fraction(got.numerator, got.denominator) == want
        ctx.expect(ok, f"arith:{name}:{btype}:{side}", a=str(fa), b=str(fb), want=str(want), got=repr(got),
                   got_type=type(got[1] if name == "divmod" else got).__name__)
    for name, op in (("abs", abs), ("neg", operator.neg), ("pos", operator.pos)):
        ctx.mon("arith")
        got = op(a)
        ctx.expect(type(got) is Beat and Fraction(got.numerator, got.denominator) == op(fa),
                   f"arith:{name}", a=str(fa), got=repr(got), got_type=type(got).__name__)

"""C15 -- Split timing: chart timing is used all-or-nothing under one rule."""
import random
from decimal import Decimal, InvalidOperation
from fractions import Fraction

LEVEL = "exploration"
DESIGN_REF = "5/C15"
TECHNIQUE = "runtime oracle on the real TimingData/displaybpm: source-tagged values identify where every field came from; configuration space enumerated (3^11 chart property states x 7 versions) in the thorough tier"
LEVEL_TEXT = (
    "Simfile and chart carry distinct tagged timing values, so every TimingData field and the displaybpm result "
    "identify their source; the expected source is computed from the one documented rule. Quick enumerates all "
    "single and pairwise trigger states x versions x kinds and adds seeded random configurations; thorough "
    "enumerates SSC simfile x 7 versions x SSC chart x 3^11 property states completely and samples the other axes."
)
LEVEL_NOTE = "Trusts the 15-line rule in this module (written from the property statement) and Decimal parsing of the tagged values."
RULE = (
    "configuration = simfile kind x VERSION state x chart kind x state in {absent, empty, non-empty} of each of "
    "the 11 chart timing properties x OFFSET/DISPLAYBPM states on both sides x ignore_specified; values are "
    "random within their syntactic class and tagged by side. Non-trivial when a chart is supplied; distinct by "
    "canonical JSON of the configuration."
    ' Round 5: SM stops spelled FREEZES; DISPLAYBPM numbers equal to zero.'
    ' Round 6: 24-event texts, second reading after in-place edits of the first result, blanks-only chart values.'
    ' Round 7: source edited after construction (one-moment readings), copied charts emptied of timing.'
    ' Round 8: several BPM entries for one beat; FREEZES/ANIMATIONS/STOP/BPM keys on charts.'
    ' Round 9: negative and zero tempos among the BPMS.'
)
EXHAUSTIVE_PART = "thorough: SSC simfile x {absent, empty, 0.69, 0.7, 0.70, 0.83, 1.0} x SSC chart x 3^11 chart property states (1 240 029 configurations); quick: all single and pairwise property states"
ASSUMPTIONS = ["decimal.Decimal parses the generated numbers"]
MONITORS = ["timingdata_source", "displaybpm", "reading_is_of_one_moment", "copied_chart_emptied"]
REQUIRED = ["source_chart", "source_simfile", "version_0.7", "version_0.69", "version_absent", "sm_simfile", "sm_chart",
            "chart_offset_absent_simfile_offset_set", "dbpm_static", "dbpm_range", "dbpm_random", "dbpm_malformed",
            "dbpm_fallback_single", "dbpm_fallback_range", "dbpm_fallback_range_equal_values", "ignore_specified",
            "non_timing_chart_property_set", "chart_value_identical_to_simfile_value", "key_only_chart_timing_property",
            "sm_simfile_stops_spelled_freezes", "dbpm_number_equal_to_zero", "chart_timing_value_of_blanks_only",
            "timing_text_of_256_or_more_characters"]

PROPS = ["BPMS", "STOPS", "DELAYS", "TIMESIGNATURES", "TICKCOUNTS", "COMBOS", "WARPS", "SPEEDS", "SCROLLS", "FAKES", "LABELS"]
VERSIONS = [None, "", "0.69", "0.7", "0.70", "0.83", "1.0"]
DBPM_CLASSES = ["static", "range", "random", "malformed"]
MALFORMED = ["abc", "1:", ":2", "1:2:3", " * ", "**", "12a", "1:b"]


def anchors():
    from ..core import pick

    return pick(
        "simfile.timing._private.timingsource:timing_source",
        "simfile.timing:TimingData.__init__",
        "simfile.timing.displaybpm:displaybpm",
    )


def code_of(states):
    c = 0
    for s in reversed(states):
        c = c * 3 + s
    return c


def states_of(code):
    out = []
    for _ in PROPS:
        code, s = divmod(code, 3)
        out.append(s)
    return out


def cases(ctx):
    rng = ctx.rng
    quick = ctx.tier == "quick"
    if quick:
        # all single and pairwise property states
        codes = {0}
        for i in range(11):
            for si in (1, 2):
                st = [0] * 11
                st[i] = si
                codes.add(code_of(st))
                for j in range(i + 1, 11):
                    for sj in (1, 2):
                        st2 = st[:]
                        st2[j] = sj
                        codes.add(code_of(st2))
        codes = sorted(codes)
        for v in range(len(VERSIONS)):
            yield {"kind": "block", "version": v, "codes": codes, "sf": "ssc", "chart": "ssc"}
        yield {"kind": "block", "version": 5, "codes": codes, "sf": "sm", "chart": "ssc"}
        yield {"kind": "block", "version": 5, "codes": codes, "sf": "ssc", "chart": "sm"}
        ctx.exhaustive = True
        n = 20000
    else:
        block = 2187
        i = 0
        for v in range(len(VERSIONS)):
            for c0 in range(0, 3 ** 11, block):
                if ctx.mine(i):
                    yield {"kind": "block", "version": v, "c0": c0, "c1": min(3 ** 11, c0 + block), "sf": "ssc", "chart": "ssc"}
                i += 1
        ctx.exhaustive = True
        n = ctx.split(16 * 40000)
    for _ in range(n):
        yield {
            "kind": "one", "sf": rng.choice(["sm", "ssc", "ssc", "ssc"]), "version": rng.randrange(len(VERSIONS)),
            "chart": rng.choice(["none", "sm", "ssc", "ssc", "ssc"]),
            "code": code_of([rng.choice([0, 0, 0, 1, 2]) for _ in PROPS]) if rng.random() < 0.7 else code_of([rng.randrange(3) for _ in PROPS]),
            "seed": rng.getrandbits(32),
        }


def check(ctx, case):
    if case["kind"] == "block":
        ctx.begin(case, nontrivial=False)
        ctx.evaluations -= 1
        codes = case["codes"] if "codes" in case else range(case["c0"], case["c1"])
        for code in codes:
            one = {"kind": "one", "sf": case["sf"], "version": case["version"], "chart": case["chart"], "code": code,
                   "seed": (code * 7 + case["version"]) & 0xFFFFFFFF}
            ctx.evaluations += 1
            ctx.digests.add(hash((case["sf"], case["version"], case["chart"], code)) & 0xFFFFFFFFFFFFFFFF)
            if code % 9973 == 243:
                ctx.add_sample(dict(one, states=dict(zip(PROPS, states_of(code))), version_text=VERSIONS[case["version"]]))
            run_one(ctx, one)
        return
    ctx.begin(case, nontrivial=case["chart"] != "none")
    run_one(ctx, case)


def rnum(rng, lo=1, hi=999):
    return f"{rng.randint(lo, hi)}.{rng.randint(0, 999):03d}"


def tagged_values(rng, side):
    base = 100 if side == "s" else 500
    n = rng.choice([1, 1, 2, 3, 3, 24])   # 24 events: a text of several hundred characters
    if rng.random() < 0.08:
        # a negative or zero tempo among the BPMS (they count for the displayed minimum like any other value)
        vals = [base + rng.randint(0, 399), rng.choice([-960, -1, 0, -base]), base + rng.randint(0, 399)]
        rng.shuffle(vals)
        return dict(_tv_rest(rng, base), BPMS=",".join(f"{4 * i}.000={v}.000" for i, v in enumerate(vals[: rng.choice([2, 3])])))
    if rng.random() < 0.12:
        # two or three BPM entries written for one and the same beat (each counts for the displayed range)
        vals = [base + rng.randint(0, 399) for _ in range(rng.choice([2, 3]))]
        dup = ",".join(f"{b}={v}.000" for b, v in zip(rng.choice([["0.000", "0.000", "4.000"], ["0", "0.000", "0.0"], ["4.000", "4.000", "4.000"]]), vals))
        return dict(_tv_rest(rng, base), BPMS=dup)
    if n > 1 and rng.random() < 0.3:
        v = base + rng.randint(0, 399)
        bpms = ",".join(f"{4 * i}.000={v}{rng.choice(['', '.0', '.000'])}" for i in range(n))  # several entries, one value
    else:
        bpms = ",".join(f"{4 * i}.000={base + rng.randint(0, 399)}.{rng.randint(0, 999):03d}" for i in range(n))
    return {
        "BPMS": bpms,
        "STOPS": f"{rng.randint(1, 9)}.000=0.{base + rng.randint(0, 99)}",
        "DELAYS": f"{rng.randint(1, 9)}.500=1.{base + rng.randint(0, 99)}",
        "WARPS": f"{rng.randint(10, 19)}.000=2.{base // 100}00",
        "OFFSET": f"{'-' if rng.random() < 0.3 else ''}0.{base + rng.randint(0, 99)}",
        "TIMESIGNATURES": "0.000=4=4", "TICKCOUNTS": "0.000=4", "COMBOS": "0.000=1",
        "SPEEDS": "0.000=1.000=0.000=0", "SCROLLS": "0.000=1.000", "FAKES": "4.000=1.000", "LABELS": "0.000=Song Start",
    }


def _tv_rest(rng, base):
    return {
        "STOPS": f"{rng.randint(1, 9)}.000=0.{base + rng.randint(0, 99)}",
        "DELAYS": f"{rng.randint(1, 9)}.500=1.{base + rng.randint(0, 99)}",
        "WARPS": f"{rng.randint(10, 19)}.000=2.{base // 100}00",
        "OFFSET": f"{'-' if rng.random() < 0.3 else ''}0.{base + rng.randint(0, 99)}",
        "TIMESIGNATURES": "0.000=4=4", "TICKCOUNTS": "0.000=4", "COMBOS": "0.000=1",
        "SPEEDS": "0.000=1.000=0.000=0", "SCROLLS": "0.000=1.000", "FAKES": "4.000=1.000", "LABELS": "0.000=Song Start",
    }


def dbpm_value(rng, cls):
    zero = lambda: rng.choice(["0", "0.000", "0.0", "000", "-0.000"])
    if cls == "static":
        return zero() if rng.random() < 0.15 else rnum(rng)
    if cls == "range":
        r = rng.random()
        if r < 0.08:
            return zero() + ":" + rnum(rng)
        if r < 0.16:
            return rnum(rng) + ":" + zero()
        if r < 0.2:
            return zero() + ":" + zero()
        return rnum(rng) + ":" + rnum(rng)
    if cls == "random":
        return "*"
    return rng.choice(MALFORMED)


def parse_events(s):
    if not s or not s.strip():
        return []
    out = []
    for row in s.split(","):
        b, v = row.strip().split("=")
        out.append((Fraction(Decimal(b)), Decimal(v)))
    return out


def run_one(ctx, case):
    from simfile.sm import SMChart, SMSimfile
    from simfile.ssc import SSCChart, SSCSimfile
    from simfile.timing import TimingData
    from simfile.timing.displaybpm import RandomDisplayBPM, RangeDisplayBPM, StaticDisplayBPM, displaybpm

    rng = random.Random(case["seed"])
    states = states_of(case["code"])
    sv, cv = tagged_values(rng, "s"), tagged_values(rng, "c")
    version = VERSIONS[case["version"]]

    # simfile
    sf = SSCSimfile() if case["sf"] == "ssc" else SMSimfile()
    sf.charts = []
    if version is not None:
        sf["VERSION"] = version
    s_bpms_state = rng.choice([2, 2, 2, 2, 1, 0])
    for key in ("BPMS", "STOPS", "DELAYS", "WARPS"):
        st = s_bpms_state if key == "BPMS" else rng.choice([0, 1, 2, 2])
        if key == "STOPS" and case["sf"] == "sm" and st and rng.random() < 0.5:
            key = "FREEZES"   # the legacy spelling of STOPS in SM files: the simfile's stops all the same
            ctx.feat("sm_simfile_stops_spelled_freezes")
        if st == 1:
            sf[key] = ""
        elif st == 2:
            sf[key] = sv["STOPS" if key == "FREEZES" else key]
    s_off = rng.choice([0, 1, 2, 2])
    if s_off:
        sf["OFFSET"] = "" if s_off == 1 else sv["OFFSET"]
    s_dbpm = rng.choice([0, 0, 1, 2, 2])
    s_cls = rng.choice(DBPM_CLASSES)
    if s_dbpm:
        sf["DISPLAYBPM"] = "" if s_dbpm == 1 else dbpm_value(rng, s_cls)

    # chart
    chart = None
    if case["chart"] == "sm":
        chart = SMChart.blank()
    elif case["chart"] == "ssc":
        chart = SSCChart.blank()
        for key, st in zip(PROPS, states):
            if st == 1:
                chart[key] = "" if rng.random() < 0.7 else None   # '#STOPS:;' or the key-only '#STOPS;'
                if chart[key] is None:
                    ctx.feat("key_only_chart_timing_property")
            elif st == 2:
                chart[key] = cv[key]
                if rng.random() < 0.06:
                    # blanks only: not an empty value (it makes the chart the source like any other text), no events
                    chart[key] = rng.choice([" ", "\n", "\t \n"])
                    ctx.feat("chart_timing_value_of_blanks_only")
        for key in ("ATTACKS", "CHARTNAME", "CREDIT", "MUSIC", "KEYSOUNDS", "FREEZES", "ANIMATIONS", "STOP", "BPM"):
            if rng.random() < 0.3:
                chart[key] = rng.choice(["TIME=1.000:END=2.000:MODS=*2 drunk", "x", "0.000=1.000"])  # never a trigger
                ctx.feat("non_timing_chart_property_set")
        same = rng.random() < 0.25
        if same:
            # the chart repeats some of the simfile's timing text verbatim; the other fields still tell the sources apart
            for key in ("BPMS", "STOPS", "DELAYS", "WARPS"):
                if key in chart and chart[key] and sf.get(key) and rng.random() < 0.7:
                    chart[key] = sf[key]
                    ctx.feat("chart_value_identical_to_simfile_value")
        c_off = rng.choice([0, 1, 2, 2])
        if c_off:
            chart["OFFSET"] = "" if c_off == 1 else cv["OFFSET"]
        c_dbpm = rng.choice([0, 0, 1, 2, 2])
        c_cls = rng.choice(DBPM_CLASSES)
        if c_dbpm:
            chart["DISPLAYBPM"] = "" if c_dbpm == 1 else dbpm_value(rng, c_cls)
    ignore = rng.random() < 0.3

    # the one rule
    def version_ok(v):
        try:
            return float(v or "0") >= 0.7
        except ValueError:
            return False

    from_chart = (case["sf"] == "ssc" and case["chart"] == "ssc" and version_ok(version) and any(s == 2 for s in states))
    src = chart if from_chart else sf
    ctx.feat("source_chart" if from_chart else "source_simfile")
    ctx.feat("version_" + ("absent" if version is None else (version or "empty")))
    if case["sf"] == "sm":
        ctx.feat("sm_simfile")
    if case["chart"] == "sm":
        ctx.feat("sm_chart")
    if from_chart and not chart.get("OFFSET") and sf.get("OFFSET"):
        ctx.feat("chart_offset_absent_simfile_offset_set")

    detail = {"config": case, "version": version, "simfile": dict(sf), "chart": dict(chart) if chart is not None else None,
              "expected_source": "chart" if from_chart else "simfile"}
    one_arg = rng.random() < 0.5
    for attempt in (0, 1):
        # the second reading comes after the caller has edited the lists of the first result in place
        ctx.mon("timingdata_source")
        td = TimingData(sf, chart) if chart is not None else (TimingData(sf) if one_arg else TimingData(sf, None))
        for attr, key in (("bpms", "BPMS"), ("stops", "STOPS"), ("delays", "DELAYS"), ("warps", "WARPS")):
            text = src.get(key)
            if key == "STOPS" and "STOPS" not in src and src is sf and case["sf"] == "sm":
                text = src.get("FREEZES")
            want = parse_events(text)
            got = [(Fraction(e.beat), e.value) for e in getattr(td, attr)]
            if len(text or "") >= 256:
                ctx.feat("timing_text_of_256_or_more_characters")
            if got != want:
                ctx.violation(f"timingdata:{attr}-from-wrong-source-or-wrong-value" + (":second-reading-after-in-place-edits" if attempt else ""),
                              dict(detail, field=key, got=repr(got)[:300], want=repr(want)[:300]))
        want_off = Decimal(src.get("OFFSET") or 0)
        if not (type(td.offset) is Decimal and td.offset == want_off):
            ctx.violation("timingdata:offset", dict(detail, got=repr(td.offset), want=str(want_off)))
        if attempt == 0:
            from simfile.timing import Beat, BeatValue

            td.bpms.append(BeatValue(Beat(999), Decimal("1")))
            if len(td.bpms) > 2:
                del td.bpms[1]
            td.stops.clear()
            td.delays.insert(0, BeatValue(Beat(1, 48), Decimal("7")))
            td.warps.reverse()
            td.offset = Decimal("99")

    # the chosen source is edited after a TimingData was built from it (bpms and offset both): what the object shows
    # afterwards is either all of the old reading or all of the new one, never a mixture
    ctx.mon("reading_is_of_one_moment")
    td0 = TimingData(sf, chart) if chart is not None else TimingData(sf)
    old_b, old_o = src.get("BPMS"), src.get("OFFSET")
    src["BPMS"] = "0.000=777.000"
    src["OFFSET"] = "55.500"
    got_b = [(Fraction(e.beat), e.value) for e in td0.bpms]
    got_o = td0.offset
    olds = (parse_events(old_b), Decimal(old_o or 0))
    news = (parse_events("0.000=777.000"), Decimal("55.500"))
    if (got_b, got_o) not in (olds, news):
        ctx.violation("timingdata:mixes-readings-of-two-moments-after-its-source-was-edited",
                      dict(detail, bpms=repr(got_b)[:200], offset=str(got_o), old=repr(olds)[:200], new=repr(news)[:200]))
    for k, v in (("BPMS", old_b), ("OFFSET", old_o)):
        if v is None:
            del src[k]
        else:
            src[k] = v

    # a deep copy of the chart, emptied of all its timing properties, is a chart without timing: the simfile is the source
    if chart is not None and from_chart:
        import copy as _copy

        ctx.mon("copied_chart_emptied")
        dup = _copy.deepcopy(chart) if rng.random() < 0.5 else _copy.copy(chart)
        for key in PROPS:
            if key in dup:
                if rng.random() < 0.5:
                    del dup[key]
                else:
                    dup[key] = ""
        td2 = TimingData(sf, dup)
        want_b = parse_events(sf.get("BPMS"))
        got_b = [(Fraction(e.beat), e.value) for e in td2.bpms]
        want_o = Decimal(sf.get("OFFSET") or 0)
        if got_b != want_b or td2.offset != want_o:
            ctx.violation("timingdata:copied-chart-emptied-of-timing-is-still-the-source",
                          dict(detail, got=repr(got_b)[:200], want=repr(want_b)[:200], offset=str(td2.offset)))

    # displayed BPM
    if not parse_events(src.get("BPMS")):
        ctx.skip("displaybpm: chosen source has no BPMS (outside the clause)")
        return
    ctx.mon("displaybpm")
    if ignore:
        ctx.feat("ignore_specified")
    spec = src.get("DISPLAYBPM") if "DISPLAYBPM" in src else None
    want = None
    if spec is not None and not ignore:
        try:
            if spec == "*":
                want = RandomDisplayBPM()
                ctx.feat("dbpm_random")
            elif ":" in spec:
                a, _, b = spec.partition(":")
                want = RangeDisplayBPM(min=Decimal(a), max=Decimal(b))
                ctx.feat("dbpm_range")
            else:
                want = StaticDisplayBPM(value=Decimal(spec))
                ctx.feat("dbpm_static")
            if spec != "*" and any(Decimal(x) == 0 for x in spec.split(":")):
                ctx.feat("dbpm_number_equal_to_zero")
        except InvalidOperation:
            want = None
            ctx.feat("dbpm_malformed")
    if want is None:
        vals = [v for _, v in parse_events(src.get("BPMS"))]
        if len(vals) == 1:
            want = StaticDisplayBPM(vals[0])
            ctx.feat("dbpm_fallback_single")
        else:
            want = RangeDisplayBPM(min=min(vals), max=max(vals))
            ctx.feat("dbpm_fallback_range")
            if min(vals) == max(vals):
                ctx.feat("dbpm_fallback_range_equal_values")
    try:
        if chart is None:
            got = displaybpm(sf, ignore_specified=ignore) if ignore else displaybpm(sf)
        else:
            got = displaybpm(sf, chart, ignore_specified=ignore)
    except Exception as e:
        ctx.violation(f"displaybpm:raised:{type(e).__name__}", dict(detail, exc=repr(e), ignore=ignore))
        return
    if not (type(got) is type(want) and got == want):
        ctx.violation("displaybpm:differs", dict(detail, ignore=ignore, got=repr(got), want=repr(want)))

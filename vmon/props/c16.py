"""C16 -- SM to SSC conversion keeps every property, chart, timing and note."""
import copy
import random

from ..gen import edits as E
from ..gen import notes as GN
from ..ref import dictmodel as M
from . import c01

LEVEL = "exploration"
DESIGN_REF = "5/C16"
TECHNIQUE = "runtime oracle on the real sm_to_ssc: dictionary expectation (template updated by source), TimingData/NoteData read-back through the library's own readers, deep-copy snapshots for non-modification, identity/aliasing monitor, repeated-call monitor, reload monitor"
LEVEL_TEXT = (
    "SM sources produced by C01's edit histories (with well-formed OFFSET/BPMS/STOPS, optional DELAYS/WARPS, the "
    "ANIMATIONS alias, SSC-only keys, 0..n charts with decodable notes) are converted with no template, blank, "
    "sparse, chart-carrying and empty templates; the result is compared with the template updated by the source, "
    "its timing and notes are read back through TimingData/NoteData, source and templates are compared with deep "
    "copies taken before the call and after mutating the result, a second conversion with the same template must "
    "give the same result, the serialization must reload equal, and negative BPMs/stops must be refused."
)
LEVEL_NOTE = "Sources spelling their stops FREEZES are kept out of the random domain and probed as a known finding. Trusts the dictionary expectation (OrderedDict update) and C01's generator."
RULE = (
    "case = C01 edit history + timing fix-up ops + template choice (none, blank, sparse, with charts, empty; chart "
    "template none, blank, sparse, empty, with a timing key). Non-trivial when the source has a chart or at least "
    "five properties; distinct by canonical JSON."
    ' Round 5: templates whose charts spell their notes NOTES2; a negative row followed by a row for the same beat text.'
    ' Round 6: sources of an SMSimfile subclass; the same source made negative after a successful conversion.'
    ' Round 7: attribute-level identity (extradata lists), negatives that are -0.0 as floats.'
    ' Round 8: negative DELAYS (must convert).'
    ' Round 9: chart template with an OFFSET only; chart template edited between two conversions.'
)
ASSUMPTIONS = ["C01's generator and the gap guard", "TimingData / NoteData as readers (C07, C14)"]
MONITORS = ["result_content", "timing_equal", "notes_equal", "unmodified", "no_sharing", "second_call_same", "reload", "reload_autodetect", "negative_refused", "negative_refused_after_an_earlier_conversion", "template_edited_between_calls"]
REQUIRED = ["template_none", "template_blank", "template_sparse", "template_with_charts", "template_empty",
            "chart_template_empty", "chart_template_sparse", "animations_alias", "ssc_only_key_in_source", "version_key_in_source",
            "negative_bpm_or_stop", "source_with_charts", "delays_or_warps", "zero_length_stop", "chart_template_empty_timing_keys",
            "chart_template_spells_its_notes_NOTES2", "negative_row_followed_by_a_row_for_the_same_beat", "template_with_notes2_chart",
            "source_is_an_instance_of_a_subclass_of_SMSimfile", "negative_value_that_is_minus_zero_as_a_float",
            "source_chart_with_extra_components", "negative_delay_in_a_source_that_must_convert",
            "chart_template_with_an_offset_and_no_timing_property"]

SSC_ONLY = ["VERSION", "ORIGIN", "LABELS", "MUSICLENGTH", "LASTSECONDHINT", "PREVIEWVID", "JACKET", "CDIMAGE", "DISCIMAGE", "PREVIEW",
            "COMBOS", "SPEEDS", "SCROLLS", "FAKES", "WARPS", "TIMESIGNATURES"]


def anchors():
    from ..core import pick

    return pick(
        "simfile.convert:_convert",
        "simfile.convert:_copy_properties",
        "simfile.convert:_should_copy_property",
        "simfile.convert:_convert_warps",
        "simfile.convert:sm_to_ssc",
    )


def timing_ops(rng, negative):
    def evs(n, lo, hi, neg=False):
        k = 0
        out = []
        j = (n - 1 if rng.random() < 0.5 else rng.randrange(n)) if neg else -1
        for i in range(n):
            v = rng.uniform(lo, hi)
            if not neg and lo < 50 and rng.random() < 0.15:
                v = 0.0  # a zero-length stop / delay is well-formed and not negative
            if i == j:
                v = -v
                if rng.random() < 0.15:
                    # negative, but so small that it is -0.0 as a float
                    out.append(f"{k / 48:.3f}=" + rng.choice(["-1e-400", "-0." + "0" * 330 + "1", "-1E-350"]))
                    k += rng.randint(1, 400)
                    continue
            out.append(f"{k / 48:.3f}={v:.3f}")
            if i == j and rng.random() < 0.4:
                # the negative row is followed by a non-negative row written for the very same beat (same text)
                out.append(f"{k / 48:.3f}={rng.uniform(lo, hi):.3f}")
            k += rng.randint(1, 400)
        return ",\n".join(out) if rng.random() < 0.5 else ",".join(out)

    neg_b = negative == "bpm"
    neg_s = negative == "stop"
    ops = [["set", "OFFSET", f"{rng.uniform(-2, 2):.3f}"],
           ["set", "BPMS", evs(rng.randint(2 if neg_b else 1, 4), 60, 300, neg_b)],
           ["set", "STOPS", evs(rng.randint(1, 3), 0.1, 2, neg_s) if (neg_s or rng.random() < 0.6) else ""]]
    # DELAYS and WARPS are optional, but never garbage left over from the random history
    if not negative and rng.random() < 0.12:
        # a negative DELAY is not a reason to refuse (only BPMs and stops are): it converts like everything else
        ops.append(["set", "DELAYS", f"8.000=-{rng.uniform(0.1, 2):.3f}"])
    else:
        ops.append(["set", "DELAYS", evs(rng.randint(1, 2), 0.1, 2)] if rng.random() < 0.4 else ["del?", "DELAYS"])
    ops.append(["set", "WARPS", evs(rng.randint(1, 2), 0.5, 4)] if rng.random() < 0.3 else ["del?", "WARPS"])
    return ops


def cases(ctx):
    rng = ctx.rng
    n = ctx.split(1500 if ctx.tier == "quick" else 16 * 15000)
    for i in range(n):
        case, _ = E.gen_history(rng, "sm", f"v{ctx.shard}.{i}")
        negative = rng.choice([None] * 9 + ["bpm", "stop"])
        extra = []
        if rng.random() < 0.3:
            extra.append(["set", "ANIMATIONS", "0.000=bg.avi=1.000=1=0=0"])
            extra.append(["del?", "BGCHANGES"])
        if rng.random() < 0.4:
            k = rng.choice(SSC_ONLY)
            extra.append(["set", k, {"VERSION": rng.choice(["0.56", "0.7", "0.83", ""]), "WARPS": "4.000=1.000"}.get(k, "0.000=x")])
        case["ops"] += timing_ops(rng, negative) + extra
        case["negative"] = negative
        case["template"] = rng.choice(["none", "none", "blank", "sparse", "with_charts", "empty", "with_notes2_chart"])
        case["chart_template"] = rng.choice(["none", "none", "blank", "sparse", "empty", "timing", "empty_timing_keys", "notes2", "offset_only"])
        case["seed"] = rng.getrandbits(32)
        yield case


def build_source(case):
    pool = E.make_pool(case)
    s = E.start_real("sm", case["start"])
    for op in case["ops"]:
        if op[0] == "del?":
            if op[1] in s:
                del s[op[1]]
        else:
            E.apply_real(s, op, pool, "sm")
    # stops spelled FREEZES are a known finding, kept out of the random domain
    if "FREEZES" in s:
        del s["FREEZES"]
    if "VERSION" in s and s["VERSION"] not in ("0.56", "0.7", "0.83", ""):
        s["VERSION"] = "0.83"
    # charts get decodable note data
    rng = random.Random(case["seed"])
    for c in s.charts:
        cells = GN.gen_cells(rng, columns=4, players=1, measures=rng.choice([1, 2]), keysounds=False)
        c.notes = GN.render_cells(rng, cells, decorate=False).strip()
    return s


def make_templates(case):
    from simfile.ssc import SSCChart, SSCSimfile

    st = None
    t = case["template"]
    if t == "blank":
        st = SSCSimfile.blank()
    elif t == "sparse":
        st = SSCSimfile(string="#VERSION:0.83;\n#TITLE:template title;\n#ORIGIN:tpl;\n#CUSTOMTPL:kept;\n")
    elif t == "with_charts":
        st = SSCSimfile.blank()
        c = SSCChart.blank()
        c.description = "template chart"
        st.charts.append(c)
        st.charts.append(SSCChart.blank())
    elif t == "with_notes2_chart":
        # a template chart that spells its note data NOTES2 (the alias), and one that has both keys, NOTES2 first
        st = SSCSimfile.blank()
        c = SSCChart()
        c["STEPSTYPE"] = "dance-single"
        c["NOTES2"] = "0000\n0000\n0000\n0000\n"
        st.charts.append(c)
        c = SSCChart()
        c["NOTES2"] = "1000\n0000\n0000\n0000\n"
        c["CREDIT"] = "between"
        c["NOTES"] = "0001\n0000\n0000\n0000\n"
        st.charts.append(c)
    elif t == "empty":
        st = SSCSimfile(string="")
    ct = None
    c_ = case["chart_template"]
    if c_ == "blank":
        ct = SSCChart.blank()
    elif c_ == "sparse":
        ct = SSCChart()
        ct["CHARTNAME"] = "tpl name"
        ct["CREDIT"] = "tpl credit"
    elif c_ == "offset_only":
        # an OFFSET of its own, and none of the eleven timing properties: not a chart with split timing
        ct = SSCChart.blank()
        ct["OFFSET"] = "9.999"
        ct.move_to_end("NOTES")
    elif c_ == "notes2":
        ct = SSCChart()
        ct["CHARTNAME"] = "tpl"
        ct["NOTES2"] = "template note data under the alias"
        ct["CREDIT"] = "after the alias"
    elif c_ == "empty":
        ct = SSCChart()
    elif c_ == "timing":
        ct = SSCChart.blank()
        ct["BPMS"] = "0.000=999.000"
        ct.move_to_end("NOTES")
    elif c_ == "empty_timing_keys":
        ct = SSCChart.blank()
        ct["STOPS"] = ""
        ct["DELAYS"] = ""
        ct["WARPS"] = ""
        ct.move_to_end("NOTES")
    return st, ct


def ssc_state(sf):
    return (list(sf.items()), [list(c.items()) for c in sf.charts])


def check(ctx, case):
    from simfile.convert import sm_to_ssc
    from simfile.notes import NoteData
    from simfile.sm import SMSimfile
    from simfile.ssc import SSCChart, SSCSimfile
    from simfile.timing import TimingData

    sm = build_source(case)
    if case["seed"] % 4 == 0:
        # the caller's own subclass of SMSimfile is an SM simfile like any other
        class MySM(SMSimfile):
            pass

        sub = MySM(string=str(sm))
        if E.real_state(sub, "sm") == E.real_state(sm, "sm"):
            sm = sub
            ctx.feat("source_is_an_instance_of_a_subclass_of_SMSimfile")
    st, ct = make_templates(case)
    ctx.begin(case, nontrivial=len(sm.charts) > 0 or len(sm) >= 5,
              sample={"start": case["start"], "n_ops": len(case["ops"]), "template": case["template"], "chart_template": case["chart_template"],
                      "source_keys": list(sm.keys())[:30], "n_charts": len(sm.charts)})
    ctx.feat("template_" + case["template"])
    if case["chart_template"] in ("empty", "sparse"):
        ctx.feat("chart_template_" + case["chart_template"])
    if "ANIMATIONS" in sm:
        ctx.feat("animations_alias")
    if any(k in sm for k in SSC_ONLY):
        ctx.feat("ssc_only_key_in_source")
    if "VERSION" in sm:
        ctx.feat("version_key_in_source")
    if sm.charts:
        ctx.feat("source_with_charts")
    if sm.get("DELAYS") or sm.get("WARPS"):
        ctx.feat("delays_or_warps")
    if "=-" in (sm.get("DELAYS") or "") and not case["negative"]:
        ctx.feat("negative_delay_in_a_source_that_must_convert")
    if "=0.000" in (sm.get("STOPS") or "") and not case["negative"]:
        ctx.feat("zero_length_stop")
    if case["chart_template"] == "empty_timing_keys":
        ctx.feat("chart_template_empty_timing_keys")
    if case["chart_template"] == "offset_only" and sm.charts:
        ctx.feat("chart_template_with_an_offset_and_no_timing_property")
    if case["chart_template"] == "notes2" and sm.charts:
        ctx.feat("chart_template_spells_its_notes_NOTES2")
    if case["negative"]:
        txt = sm.get("BPMS" if case["negative"] == "bpm" else "STOPS") or ""
        rows = [r.strip() for r in txt.split(",")]
        if any("e-" in r.lower() or "=-0." + "0" * 300 in r for r in rows):
            ctx.feat("negative_value_that_is_minus_zero_as_a_float")
        if any(r.split("=")[1].startswith("-") and i + 1 < len(rows) and rows[i + 1].split("=")[0] == r.split("=")[0] for i, r in enumerate(rows) if "=" in r):
            ctx.feat("negative_row_followed_by_a_row_for_the_same_beat")
    sm_before = copy.deepcopy(sm)
    src_state0 = E.real_state(sm, "sm")
    st_state0 = ssc_state(st) if st is not None else None
    ct_state0 = list(ct.items()) if ct is not None else None
    kwargs = {}
    if st is not None:
        kwargs["simfile_template"] = st
    if ct is not None:
        kwargs["chart_template"] = ct

    try:
        res = sm_to_ssc(sm, **kwargs)
        out = ("ok",)
    except NotImplementedError:
        out = ("NotImplementedError",)
    except Exception as e:
        out = (type(e).__name__, repr(e))
    if case["negative"]:
        ctx.mon("negative_refused")
        ctx.feat("negative_bpm_or_stop")
        ctx.expect(out == ("NotImplementedError",), "negative:not-refused-with-NotImplementedError", negative=case["negative"], got=out,
                   bpms=sm.get("BPMS"), stops=sm.get("STOPS"))
        ctx.expect(E.real_state(sm, "sm") == src_state0, "negative:source-modified")
        return
    if out != ("ok",):
        ctx.violation(f"convert:raised:{out[0]}", {"got": out, "source": repr(src_state0)[:500]})
        return

    # ---- content
    ctx.mon("result_content")
    base_items = list((st if st is not None else SSCSimfile.blank()).items())
    want = dict(base_items)
    want.update(dict(sm.items()))
    ok = type(res) is SSCSimfile and dict(res.items()) == want and len(res) == len(want)
    ctx.expect(ok, "content:properties", got=repr(list(res.items()))[:500], want=repr(want)[:500])
    for k, v in sm.items():
        if res.get(k, "<absent>") != v:
            ctx.violation("content:source-property-lost-or-changed", {"key": k, "source": v, "result": res.get(k, "<absent>")})
            break
    n_t = len(st.charts) if st is not None else 0
    ctx.expect(len(res.charts) == n_t + len(sm.charts), "content:chart-count", got=len(res.charts), want=n_t + len(sm.charts))
    if st is not None:
        ctx.expect([list(c.items()) for c in res.charts[:n_t]] == [list(c.items()) for c in st.charts], "content:template-charts-not-kept-first")
    cbase = list((ct if ct is not None else SSCChart.blank()).items())
    for rc, sc in zip(res.charts[n_t:], sm.charts):
        wantc = dict(cbase)
        wantc.update({k: sc[k] for k in M.SIX})
        if not (type(rc) is SSCChart and dict(rc.items()) == wantc):
            ctx.violation("content:chart", {"got": repr(list(rc.items()))[:400], "want": repr(wantc)[:400]})
            break
        six = [rc.stepstype, rc.description, rc.difficulty, rc.meter, rc.radarvalues, rc.notes]
        if six != [sc.stepstype, sc.description, sc.difficulty, sc.meter, sc.radarvalues, sc.notes]:
            ctx.violation("content:chart-six-fields", {"got": six})
            break

    # ---- timing and notes through the library's own readers
    tkeys = ("BPMS", "STOPS", "DELAYS", "WARPS", "OFFSET")
    tpl_adds_timing = any(v and k in tkeys and k not in sm for k, v in base_items)
    if not tpl_adds_timing:
        ctx.mon("timing_equal")
        a, b = TimingData(sm), TimingData(res)
        same = all(list(getattr(a, f)) == list(getattr(b, f)) for f in ("bpms", "stops", "delays", "warps")) and a.offset == b.offset
        ctx.expect(same, "timing:result-differs-from-source", source=repr(vars(a))[:300], result=repr(vars(b))[:300])
        if case["chart_template"] != "timing":
            for rc in res.charts[n_t:]:
                c = TimingData(res, rc)
                if not (all(list(getattr(a, f)) == list(getattr(c, f)) for f in ("bpms", "stops", "delays", "warps")) and a.offset == c.offset):
                    ctx.violation("timing:result-with-chart-differs-from-source", {"chart": repr(list(rc.items()))[:300]})
                    break
    else:
        ctx.skip("template supplies a timing property the source lacks (timing comparison not applicable)")
    ctx.mon("notes_equal")
    for rc, sc in zip(res.charts[n_t:], sm.charts):
        if list(NoteData(rc)) != list(NoteData(sc)) or NoteData(rc).columns != NoteData(sc).columns:
            ctx.violation("notes:differ", {"source": sc.notes[:200], "result": rc.notes[:200]})
            break

    # ---- source and templates unmodified, nothing shared
    ctx.mon("unmodified")
    ctx.expect(E.real_state(sm, "sm") == src_state0 and sm == sm_before, "unmodified:source-changed")
    if st is not None:
        ctx.expect(ssc_state(st) == st_state0, "unmodified:simfile-template-changed", before=repr(st_state0)[:300], after=repr(ssc_state(st))[:300])
    if ct is not None:
        ctx.expect(list(ct.items()) == ct_state0, "unmodified:chart-template-changed")
    # ... also through instance attributes (e.g. a chart's list of extra NOTES components)
    def reach(o):
        out = {}
        for name, v in list(vars(o).items()) if hasattr(o, "__dict__") else []:
            if isinstance(v, (list, dict, set)):
                out[id(v)] = f"{type(o).__name__}.{name}"
        return out

    theirs = {}
    for o in [sm] + list(sm.charts) + ([st] + list(st.charts) if st is not None else []) + ([ct] if ct is not None else []):
        theirs.update(reach(o))
    for o in [res] + list(res.charts):
        for i_, where in reach(o).items():
            if i_ in theirs:
                ctx.violation("sharing:result-shares-an-attribute-object-with-source-or-template", {"result": where, "other": theirs[i_]})
    if any(getattr(c, "extradata", None) for c in sm.charts):
        ctx.feat("source_chart_with_extra_components")
    ctx.mon("no_sharing")
    others = [sm] + list(sm.charts) + ([st] + list(st.charts) if st is not None else []) + ([ct] if ct is not None else [])
    mine = [res, res.charts] + list(res.charts)
    shared = [(type(x).__name__) for x in mine for o in others + ([st.charts] if st is not None else []) + [sm.charts] if x is o]
    ctx.expect(not shared, "sharing:result-shares-an-object-with-source-or-template", shared=shared)
    first_state = ssc_state(res)
    # second conversion with the same (re-used) templates gives the same result
    ctx.mon("second_call_same")
    res2 = sm_to_ssc(sm, **kwargs)
    ctx.expect(ssc_state(res2) == first_state, "second-call:differs-from-first", first=repr(first_state)[:300], second=repr(ssc_state(res2))[:300])
    if ct is not None and len(ct) and sm.charts:
        # a value of the (re-used) chart template is changed in place: the next conversion uses the template as it is now
        ctx.mon("template_edited_between_calls")
        k0 = next(k for k in ct if k not in ("NOTES", "NOTES2") and k not in M.SIX) if any(k not in ("NOTES", "NOTES2") and k not in M.SIX for k in ct) else None
        if k0 is not None:
            old_v = ct[k0]
            ct[k0] = "edited between two calls"
            res3 = sm_to_ssc(sm, **kwargs)
            ctx.expect(all(c.get(k0) == "edited between two calls" for c in res3.charts[n_t:]), "third-call:uses-a-stale-copy-of-the-chart-template",
                       template_key=k0, got=[c.get(k0) for c in res3.charts[n_t:]][:3])
            ct[k0] = old_v
            ct_state0 = list(ct.items())
    # mutate the result: nothing else may change
    res["MUTATED"] = "yes"
    for c in res.charts:
        c["MUTATED"] = "yes"
        c["STEPSTYPE"] = "changed"
    res.charts.append(SSCChart.blank())
    ctx.expect(E.real_state(sm, "sm") == src_state0, "sharing:mutating-result-changed-source")
    if st is not None:
        ctx.expect(ssc_state(st) == st_state0, "sharing:mutating-result-changed-simfile-template")
    if ct is not None:
        ctx.expect(list(ct.items()) == ct_state0, "sharing:mutating-result-changed-chart-template")
    ctx.expect(ssc_state(res2) == first_state, "sharing:mutating-result-changed-second-result")

    # ---- the same source object, edited after a successful conversion so that it now holds a negative BPM or stop,
    # is refused like any other (and the refused call leaves it alone)
    ctx.mon("negative_refused_after_an_earlier_conversion")
    which = "BPMS" if case["seed"] % 2 else "STOPS"
    old_val = sm.get(which)
    sm[which] = (old_val + "," if old_val and old_val.strip() else "") + "900.000=-1.500"
    try:
        sm_to_ssc(sm, **kwargs)
        ctx.violation("negative:not-refused-on-a-source-that-converted-fine-before-it-was-edited", {"key": which, "value": sm[which][-60:]})
    except NotImplementedError:
        pass
    except Exception as e:
        ctx.violation("negative:wrong-exception-on-edited-source", {"exc": repr(e)})
    if old_val is None:
        del sm[which]
    else:
        sm[which] = old_val

    # ---- reload
    ctx.mon("reload")
    text = str(res2)
    try:
        back = SSCSimfile(string=text)
        if all(not c or list(c)[-1] in ("NOTES", "NOTES2") for c in res2.charts):
            ctx.expect(back == res2 and ssc_state(back) == first_state, "reload:differs", text=text[:300])
        else:
            # an SM source chart whose backing mapping was filled out of order (SMChart() + assignments, move_to_end)
            # gives a result chart that does not end with its note data: equality then holds up to C02's
            # "note data moved last", which is what the serializer guarantees
            from . import c04

            ctx.feat("result_chart_notes_not_last")
            ctx.expect(c04.state(back) == c04.state(res2), "reload:differs-beyond-notes-moved-last", text=text[:300])
    except Exception as e:
        ctx.violation(f"reload:raised:{type(e).__name__}", {"exc": repr(e), "text": text[:400]})
    # template keys keep their place (VERSION first in the blank and sparse templates), so the text is detected as SSC
    if base_items and base_items[0][0] == "VERSION":
        import simfile

        ctx.mon("reload_autodetect")
        try:
            auto = simfile.loads(text)
            ctx.expect(type(auto) is SSCSimfile and ssc_state(auto) == ssc_state(SSCSimfile(string=text)),
                       "reload:autodetecting-loader-does-not-give-the-ssc-simfile", type=type(auto).__name__, first_keys=list(res2.keys())[:3])
        except Exception as e:
            ctx.violation(f"reload:autodetecting-loader-raised:{type(e).__name__}", {"exc": repr(e), "first_keys": list(res2.keys())[:3]})


def _probe_freezes(ctx):
    from simfile.convert import sm_to_ssc
    from simfile.sm import SMSimfile
    from simfile.timing import TimingData

    sm = SMSimfile(string="#OFFSET:0;#BPMS:0=120;#FREEZES:4=1;")
    res = sm_to_ssc(sm)
    a, b = TimingData(sm), TimingData(res)
    if list(a.stops) != list(b.stops):
        return f"source stops {list(a.stops)!r}, converted stops {list(b.stops)!r}"
    return None


PROBES = {
    "freezes-alias": (_probe_freezes, "an SM source that spells its stops FREEZES ('#OFFSET:0;#BPMS:0=120;#FREEZES:4=1;') converts to an SSC simfile whose stops are empty: only SM simfiles honour the alias"),
}

"""C17 -- SSC to SM conversion applies the caller's policy to every SSC-only property."""
import copy
import random
import re
from itertools import product

from ..ref import dictmodel as M

LEVEL = "exploration"
DESIGN_REF = "5/C17"
TECHNIQUE = "runtime oracle on the real ssc_to_sm: policy reference model (walk in order, first offender) over generated SSC simfiles x behaviour mappings (all 4^5 on small simfiles in the thorough tier); non-modification, repeated-call and round-trip monitors"
LEVEL_TEXT = (
    "Generated SSC simfiles (every SSC-only simfile and chart property absent, empty, default, blank-padded default "
    "or non-default; WARPS absent, empty or a well-formed list; 0-3 charts) are converted under random full and "
    "partial behaviour mappings - and under all 4^5 mappings for small simfiles in the thorough tier - with and "
    "without templates; the outcome (SM simfile, InvalidPropertyException naming the first offender in source order, "
    "or NotImplementedError) is compared with a reference walk of the documented policy; source and templates must "
    "stay unmodified and unshared, a second call must agree, and sm_to_ssc followed by ssc_to_sm must restore every "
    "original SM property and chart."
)
LEVEL_NOTE = "Chart keys the SM chart cannot hold (MUSIC, NOTES2, unknown keys, any table key under COPY_ANYWAY) end in a bare KeyError today: known finding, excluded from the random domain by the reference walk itself and probed separately. The property tables are re-stated in this module from the documentation."
RULE = (
    "case = SSC simfile items (ordinary + SSC-only keys in one of five states, shuffled) + charts (six fields + "
    "documented SSC chart properties in states, shuffled) + behaviour mapping (full, partial or empty) + templates. "
    "Non-trivial when at least one SSC-only property is present; distinct by canonical JSON."
    ' Round 5: values differing from a non-empty default only by inner blanks, case or a trailing character.'
    ' Round 6: templates of SMSimfile/SMChart subclasses; defaults padded with FF, VT, NBSP, U+3000, U+2028.'
    ' Round 7: template with FREEZES/ANIMATIONS only, refused values with braces.'
    ' Round 8: template chart equal to a converted source chart.'
    ' Round 9: round-trip sources with FREEZES only; chart template with extra components.'
)
EXHAUSTIVE_PART = "thorough: all 4^5 behaviour mappings on each of a set of small simfiles"
ASSUMPTIONS = ["the behaviour/default tables re-stated here are the documented ones"]
MONITORS = ["policy_outcome", "first_offender_named", "unmodified", "second_call_same", "roundtrip_sm_ssc_sm"]
REQUIRED = ["returned", "InvalidPropertyException", "NotImplementedError", "partial_mapping", "default_with_blanks",
            "value_differs_from_default_only_by_inner_blanks_or_case", "default_padded_with_a_non_ascii_or_rare_blank",
            "template_is_an_instance_of_a_subclass", "template_with_legacy_alias_keys", "template_chart_equal_to_a_source_chart", "roundtrip_source_with_FREEZES_and_no_STOPS", "chart_template_with_extra_components",
            "nonempty_default_value", "two_offenders_table_order_differs", "template_with_charts", "chart_offender",
            "copy_anyway_simfile_level", "error_behaviour", "template_empty", "chart_property_after_notes",
            "custom_key_resembling_a_table_entry"]

COPY, IGNORE, UNLESS_DEFAULT, ERROR = 1, 2, 3, 4
KINDS = ["SSC_VERSION", "METADATA", "FILE_PATH", "GAMEPLAY_EVENT", "TIMING_DATA"]
DEFAULT_BEHAVIOR = {"SSC_VERSION": IGNORE, "METADATA": IGNORE, "FILE_PATH": IGNORE, "GAMEPLAY_EVENT": UNLESS_DEFAULT, "TIMING_DATA": UNLESS_DEFAULT}
SIMFILE_TABLE = {
    "VERSION": "SSC_VERSION",
    "ORIGIN": "METADATA", "TIMESIGNATURES": "METADATA", "LABELS": "METADATA", "MUSICLENGTH": "METADATA", "LASTSECONDHINT": "METADATA",
    "PREVIEWVID": "FILE_PATH", "JACKET": "FILE_PATH", "CDIMAGE": "FILE_PATH", "DISCIMAGE": "FILE_PATH", "PREVIEW": "FILE_PATH",
    "COMBOS": "GAMEPLAY_EVENT", "SPEEDS": "GAMEPLAY_EVENT", "SCROLLS": "GAMEPLAY_EVENT", "FAKES": "GAMEPLAY_EVENT",
    "WARPS": "TIMING_DATA",
}
CHART_TABLE = {
    "CHARTNAME": "METADATA", "CHARTSTYLE": "METADATA", "CREDIT": "METADATA", "DISPLAYBPM": "METADATA", "TIMESIGNATURES": "METADATA", "LABELS": "METADATA",
    "TICKCOUNTS": "GAMEPLAY_EVENT", "COMBOS": "GAMEPLAY_EVENT", "SPEEDS": "GAMEPLAY_EVENT", "SCROLLS": "GAMEPLAY_EVENT", "FAKES": "GAMEPLAY_EVENT", "ATTACKS": "GAMEPLAY_EVENT",
    "OFFSET": "TIMING_DATA", "BPMS": "TIMING_DATA", "STOPS": "TIMING_DATA", "DELAYS": "TIMING_DATA", "WARPS": "TIMING_DATA",
}
DEFAULT_VALUE = {"TIMESIGNATURES": "0.000=4=4", "TICKCOUNTS": "0.000=4", "COMBOS": "0.000=1", "SPEEDS": "0.000=1.000=0.000=0",
                 "SCROLLS": "0.000=1.000", "LABELS": "0.000=Song Start"}
# order in which the conversion table lists the properties (used only to recognise an interesting situation)
TABLE_ORDER = list(SIMFILE_TABLE)


def anchors():
    from ..core import pick

    return pick(
        "simfile.convert:_convert",
        "simfile.convert:_copy_properties",
        "simfile.convert:_should_copy_property",
        "simfile.convert:_convert_warps",
        "simfile.convert:ssc_to_sm",
    )


def state_value(rng, key, state):
    d = DEFAULT_VALUE.get(key, "")
    if state == "empty":
        return ""
    if state == "default":
        return d
    if state == "padded":
        # blanks as str.strip() knows them: ASCII ones and form feed, NBSP, ideographic space, line separator
        return rng.choice([" ", "\n", "  \n", "\x0c", "\u00a0", "\u3000", "\u2028", "\x0b"]) + d + rng.choice([" ", "\n", "", "\u3000", "\x0c"])
    if d and rng.random() < 0.35:
        # almost the default: blanks INSIDE the value added or removed, another letter case, a longer decimal
        near = [d.replace("=", " =", 1), d.replace("=", "= ", 1), d.replace(" ", ""), d.replace(" ", "  "), d.replace("=", "=\n", 1),
                d.lower(), d.upper(), d + "0", d.replace("0.000", "0.0000", 1), d.replace("0.000", "0", 1), d + ",", d[:-1]]
        near = [x for x in near if x.strip() != d]
        if near:
            return rng.choice(near)
    if key == "WARPS":
        return rng.choice(["4.000=1.000", "4.000=1.000", "16.000=0.000", "8.000=0.000,\n24.000=0.000", "0.000=0.500,4.000=2.000"])
    if key == "VERSION":
        return rng.choice(["0.83", "0.7"])
    return rng.choice(["0.000=2", "custom value", "8.000=1.000", "x.png", "jacket {final}.png", "{}", "{0}", "100%s", "a}b{"])


def gen_source(rng, small=False):
    items = [["TITLE", "t"], ["ARTIST", "a"], ["OFFSET", "0.000"], ["BPMS", "0.000=120.000"], ["STOPS", ""], ["CUSTOMKEY", "kept"],
             ["BGCHANGES", ""], ["ATTACKS", "TIME=1:END=2:MODS=x"]]
    items = rng.sample(items, rng.randint(2, len(items)))
    for k in rng.sample(["V", "ION", "VER", "WARP", "AR", "S", "N", "PREVIEWVID2", "ORIGIN2", "COMBO"], rng.choice([0, 1, 2])):
        items.append([k, rng.choice(["custom", "", "x y"])])  # ordinary keys that merely resemble table entries
    keys = list(SIMFILE_TABLE)
    nk = rng.choice([0, 1, 2, 3]) if small else rng.choice([0, 1, 2, 4, 8, len(keys)])
    for k in rng.sample(keys, nk):
        st = rng.choice(["empty", "default", "default", "padded", "nondefault"])
        if k == "WARPS":
            st = rng.choice(["empty", "empty", "empty", "nondefault"])
        items.append([k, state_value(rng, k, st)])
    rng.shuffle(items)
    if rng.random() < 0.7:
        items = [it for it in items if it[0] != "VERSION"]
        items.insert(0, ["VERSION", "0.83"])
    charts = []
    for _ in range(rng.choice([0, 1, 1, 2]) if small else rng.choice([0, 1, 2, 3])):
        six = [["STEPSTYPE", "dance-single"], ["DESCRIPTION", rng.choice(["", "d"])], ["DIFFICULTY", "Hard"], ["METER", "9"],
               ["RADARVALUES", "0,0,0"], ["NOTES", "0000\n0001\n1000\n0000\n"]]
        if rng.random() < 0.2:
            six = rng.sample(six[:5], rng.randint(2, 5)) + [six[5]]
        ck = list(CHART_TABLE)
        extra = []
        for k in rng.sample(ck, rng.choice([0, 1, 2, 3, 6])):
            st = rng.choice(["empty", "default", "default", "padded", "nondefault"])
            extra.append([k, state_value(rng, k, st)])
        its = six[:-1] + extra
        rng.shuffle(its)
        if rng.random() < 0.3:
            its.insert(rng.randint(0, len(its)), six[-1])  # edited charts may carry properties after their note data
        else:
            its.append(six[-1])
        charts.append(its)
    return {"items": items, "charts": charts}


def gen_mapping(rng):
    r = rng.random()
    if r < 0.15:
        return {}
    weights = [COPY, IGNORE, IGNORE, IGNORE, UNLESS_DEFAULT, UNLESS_DEFAULT, ERROR]
    m = {}
    for k in KINDS:
        if r < 0.55 and rng.random() < 0.5:
            continue  # partial mapping
        m[k] = rng.choice(weights)
    return m


def cases(ctx):
    rng = ctx.rng
    quick = ctx.tier == "quick"
    n = ctx.split(4000 if quick else 16 * 30000)
    for i in range(n):
        yield {"kind": "one", "source": gen_source(rng), "mapping": gen_mapping(rng),
               "template": rng.choice(["none", "none", "blank", "sparse", "with_charts", "empty", "subclass", "legacy_alias", "with_equal_chart"]),
               "chart_template": rng.choice(["none", "none", "blank", "custom", "subclass", "blank_with_extradata"])}
    # all 4^5 mappings on small simfiles
    smalls = ctx.split(2 if quick else 64)
    for _ in range(smalls):
        yield {"kind": "all_mappings", "source": gen_source(rng, small=True)}
    ctx.exhaustive = not quick
    for _ in range(ctx.split(300 if quick else 16 * 3000)):
        yield {"kind": "roundtrip", "seed": rng.getrandbits(32)}


def behaviour(mapping, kind):
    return mapping.get(kind) or DEFAULT_BEHAVIOR[kind]


def reference(source, mapping, st_items, st_charts, ct_six):
    """-> ("ok", items dict, charts [six dicts]) | ("InvalidPropertyException", key) | ("NotImplementedError",) | ("known-finding",)"""
    items = dict(source["items"])
    w = items.get("WARPS")
    if w:  # non-empty (blank-only values are not generated)
        return ("NotImplementedError",)
    out = dict(st_items)
    for k, v in source["items"]:
        kind = SIMFILE_TABLE.get(k)
        if kind is None:
            out[k] = v
            continue
        b = behaviour(mapping, kind)
        if b == COPY:
            out[k] = v
        elif b == IGNORE:
            pass
        elif b == UNLESS_DEFAULT and v.strip() == DEFAULT_VALUE.get(k, ""):
            pass
        else:
            return ("InvalidPropertyException", k)
    charts = [dict(c) for c in st_charts]
    for its in source["charts"]:
        oc = dict(ct_six)
        for k, v in its:
            if k in M.SIX:
                oc[k] = v
                continue
            kind = CHART_TABLE.get(k)
            if kind is None:
                return ("known-finding",)
            b = behaviour(mapping, kind)
            if b == COPY:
                return ("known-finding",)  # SMChart cannot hold the key: bare KeyError today
            if b == IGNORE:
                continue
            if b == UNLESS_DEFAULT and v.strip() == DEFAULT_VALUE.get(k, ""):
                continue
            return ("InvalidPropertyException", k)
        charts.append(oc)
    return ("ok", out, charts)


def build(source):
    from simfile.ssc import SSCChart, SSCSimfile

    s = SSCSimfile(string="")
    for k, v in source["items"]:
        s[k] = v
    for its in source["charts"]:
        c = SSCChart()
        for k, v in its:
            c[k] = v
        s.charts.append(c)
    return s


def templates(case, ssc=None):
    from simfile.sm import SMChart, SMSimfile

    st = ct = None
    t = case.get("template", "none")
    if t == "with_equal_chart":
        # the template already carries a chart whose six fields equal those of the source's first chart
        # (an earlier export of the same song): the result has the template's charts AND every source chart
        st = SMSimfile.blank()
        tc = SMChart.blank()
        if case.get("chart_template") == "custom":
            tc = SMChart.from_msd(["tpl-steps", "tpl desc", "Edit", "1", "9,9", "tpl notes"])
        if ssc is not None and ssc.charts:
            for k in M.SIX:
                if ssc.charts[0].get(k) is not None:
                    tc[k] = ssc.charts[0][k]
        st.charts.append(tc)
    if t == "blank":
        st = SMSimfile.blank()
    elif t == "sparse":
        st = SMSimfile(string="#TITLE:tpl;\n#TPLKEY:kept;\n#ORIGIN:from template;\n")
    elif t == "with_charts":
        st = SMSimfile.blank()
        c = SMChart.blank()
        c.description = "template chart"
        st.charts.append(c)
    elif t == "empty":
        st = SMSimfile(string="")
    elif t == "legacy_alias":
        # as loaded from an old .sm file: stops under FREEZES, background changes under ANIMATIONS, neither standard key
        st = SMSimfile(string="#TITLE:tpl;\n#FREEZES:1.000=2.000;\n#ANIMATIONS:0.000=old.avi=1.000=1=0=0;\n")
    elif t == "subclass":
        # an instance of the caller's own subclass of SMSimfile: an SM simfile like any other
        st = type("MySMSimfile", (SMSimfile,), {})(string="#TITLE:tpl;\n#TPLKEY:kept;\n")
    c_ = case.get("chart_template", "none")
    if c_ == "blank_with_extradata":
        # blank on its six fields, but carrying extra NOTES components: still the caller's template
        ct = SMChart.blank()
        ct.extradata = ["tpl-extra", "2"]
    elif c_ == "subclass":
        ct = type("MySMChart", (SMChart,), {}).from_msd(["tpl-steps", "tpl desc", "Edit", "1", "9,9", "tpl notes"])
    elif c_ == "blank":
        ct = SMChart.blank()
    elif c_ == "custom":
        ct = SMChart.from_msd(["tpl-steps", "tpl desc", "Edit", "1", "9,9", "tpl notes"])
    return st, ct


def sm_state(sf):
    return (list(sf.items()), [[c[k] for k in M.SIX] for c in sf.charts])


def run_one(ctx, source, mapping, case, label):
    from simfile.convert import InvalidPropertyBehavior, InvalidPropertyException, PropertyType, ssc_to_sm
    from simfile.sm import SMChart, SMSimfile

    ssc = build(source)
    st, ct = templates(case, ssc)
    base = st if st is not None else SMSimfile.blank()
    cbase = ct if ct is not None else SMChart.blank()
    want = reference(source, mapping, list(base.items()), [dict(zip(M.SIX, [c[k] for k in M.SIX])) for c in base.charts],
                     dict(zip(M.SIX, [cbase[k] for k in M.SIX])))
    if want == ("known-finding",):
        ctx.skip("chart key the SM chart cannot hold would be copied (known finding smchart-keyerror)")
        return
    B = {COPY: InvalidPropertyBehavior.COPY_ANYWAY, IGNORE: InvalidPropertyBehavior.IGNORE,
         UNLESS_DEFAULT: InvalidPropertyBehavior.ERROR_UNLESS_DEFAULT, ERROR: InvalidPropertyBehavior.ERROR}
    kwargs = {}
    if mapping or ctx.evaluations % 2:
        kwargs["invalid_property_behaviors"] = {PropertyType[k]: B[v] for k, v in mapping.items()}
    if st is not None:
        kwargs["simfile_template"] = st
    if ct is not None:
        kwargs["chart_template"] = ct
    src0 = (list(ssc.items()), [list(c.items()) for c in ssc.charts])
    st0 = sm_state(st) if st is not None else None
    ct0 = list(ct.items()) if ct is not None else None
    ctx.mon("policy_outcome")
    try:
        res = ssc_to_sm(ssc, **kwargs)
        got = ("ok", dict(res.items()), [dict(zip(M.SIX, [c[k] for k in M.SIX])) for c in res.charts])
        if type(res) is not (type(st) if st is not None else SMSimfile) or len(res) != len(got[1]) \
                or any(not isinstance(c, SMChart) or list(c.keys()) != M.SIX for c in res.charts):
            got = ("ok-but-wrong-shape", type(res).__name__)
    except InvalidPropertyException as e:
        got = ("InvalidPropertyException", str(e))
    except NotImplementedError:
        got = ("NotImplementedError",)
    except Exception as e:
        got = ("other:" + type(e).__name__, repr(e))
    if ct is not None and getattr(ct, "extradata", None) and got[0] == "ok":
        ctx.feat("chart_template_with_extra_components")
        n_t = len(st.charts) if st is not None else 0
        for c in res.charts[n_t:]:
            if list(getattr(c, "extradata", None) or []) != list(ct.extradata) or c.extradata is ct.extradata:
                ctx.violation(f"{label}:chart-template-extra-components-not-respected", {"got": repr(getattr(c, "extradata", None)), "template": repr(ct.extradata)})
                break
    ctx.outcome(want[0] if want[0] != "ok" else "returned")
    ctx.feat(want[0] if want[0] != "ok" else "returned")
    detail = {"mapping": mapping, "source": source, "template": case.get("template"), "chart_template": case.get("chart_template")}
    if want[0] == "InvalidPropertyException":
        ctx.mon("first_offender_named")
        if got[0] != "InvalidPropertyException":
            ctx.violation(f"{label}:expected-InvalidPropertyException-got-{got[0]}", dict(detail, want=want, got=repr(got)[:300]))
        elif not re.search(r"(?<![A-Za-z0-9_])" + re.escape(want[1]) + r"(?![A-Za-z0-9_])", got[1]):
            ctx.violation(f"{label}:exception-does-not-name-the-first-offender", dict(detail, first_offender=want[1], message=got[1]))
    elif got != want:
        ctx.violation(f"{label}:{want[0]}-vs-{got[0]}", dict(detail, want=repr(want)[:500], got=repr(got)[:500]))
    # source and templates unmodified
    ctx.mon("unmodified")
    ctx.expect((list(ssc.items()), [list(c.items()) for c in ssc.charts]) == src0, f"{label}:source-modified", **detail)
    if st is not None:
        ctx.expect(sm_state(st) == st0, f"{label}:simfile-template-modified", before=repr(st0)[:300], after=repr(sm_state(st))[:300], **detail)
    if ct is not None:
        ctx.expect(list(ct.items()) == ct0, f"{label}:chart-template-modified", **detail)
    if got[0] == "ok" and want[0] == "ok":
        ctx.mon("second_call_same")
        res2 = ssc_to_sm(ssc, **kwargs)
        ctx.expect(sm_state(res2) == sm_state(res), f"{label}:second-call-differs", first=repr(sm_state(res))[:300], second=repr(sm_state(res2))[:300], **detail)
        shared = [type(x).__name__ for x in [res, res.charts] + list(res.charts)
                  for o in ([st, st.charts] + list(st.charts) if st is not None else []) + ([ct] if ct is not None else []) if x is o]
        ctx.expect(not shared, f"{label}:result-shares-object-with-template", shared=shared)
        res["MUTATED"] = "1"
        for c in res.charts:
            c["METER"] = "mutated"
        res.charts.append(SMChart.blank())
        if st is not None:
            ctx.expect(sm_state(st) == st0, f"{label}:mutating-result-changed-template", **detail)
        ctx.expect((list(ssc.items()), [list(c.items()) for c in ssc.charts]) == src0, f"{label}:mutating-result-changed-source")


def observe(ctx, source, mapping, case):
    offenders = []
    for k, v in source["items"]:
        kind = SIMFILE_TABLE.get(k)
        if kind and (behaviour(mapping, kind) == ERROR or (behaviour(mapping, kind) == UNLESS_DEFAULT and v.strip() != DEFAULT_VALUE.get(k, ""))):
            offenders.append(k)
        if kind and v != v.strip() and v.strip() == DEFAULT_VALUE.get(k, ""):
            ctx.feat("default_with_blanks")
            if v.strip(" \t\r\n") != v.strip():
                ctx.feat("default_padded_with_a_non_ascii_or_rare_blank")
        if kind and v == DEFAULT_VALUE.get(k) and v:
            ctx.feat("nonempty_default_value")
        if kind and DEFAULT_VALUE.get(k) and v.strip() != DEFAULT_VALUE[k] and "".join(v.split()).lower() == "".join(DEFAULT_VALUE[k].split()).lower():
            ctx.feat("value_differs_from_default_only_by_inner_blanks_or_case")
        if kind and behaviour(mapping, kind) == COPY:
            ctx.feat("copy_anyway_simfile_level")
    if any(k in ("V", "ION", "VER", "WARP", "AR", "S", "N") for k, _ in source["items"]):
        ctx.feat("custom_key_resembling_a_table_entry")
    if len(offenders) >= 2 and sorted(offenders, key=TABLE_ORDER.index)[0] != offenders[0]:
        ctx.feat("two_offenders_table_order_differs")
    if 0 < len(mapping) < 5:
        ctx.feat("partial_mapping")
    if ERROR in mapping.values():
        ctx.feat("error_behaviour")
    if case.get("template") == "with_charts":
        ctx.feat("template_with_charts")
    if case.get("template") == "empty":
        ctx.feat("template_empty")
    if case.get("template") == "legacy_alias":
        ctx.feat("template_with_legacy_alias_keys")
    if case.get("template") == "with_equal_chart":
        ctx.feat("template_chart_equal_to_a_source_chart")
    if case.get("template") == "subclass" or case.get("chart_template") == "subclass":
        ctx.feat("template_is_an_instance_of_a_subclass")
    if any(its and its[-1][0] != "NOTES" and any(k == "NOTES" for k, _ in its) for its in source["charts"]):
        ctx.feat("chart_property_after_notes")
    if not offenders and not dict(source["items"]).get("WARPS"):
        for its in source["charts"]:
            for k, v in its:
                kind = CHART_TABLE.get(k)
                if kind and k not in M.SIX and (behaviour(mapping, kind) == ERROR or (behaviour(mapping, kind) == UNLESS_DEFAULT and v.strip() != DEFAULT_VALUE.get(k, ""))):
                    ctx.feat("chart_offender")


def check(ctx, case):
    kind = case["kind"]
    if kind == "one":
        src = case["source"]
        ctx.begin(case, nontrivial=any(k in SIMFILE_TABLE for k, _ in src["items"]) or any(k in CHART_TABLE for c in src["charts"] for k, _ in c))
        observe(ctx, src, case["mapping"], case)
        run_one(ctx, src, case["mapping"], case, "convert")
        return
    if kind == "all_mappings":
        ctx.begin(case, nontrivial=False)
        ctx.evaluations -= 1
        for combo in product([COPY, IGNORE, UNLESS_DEFAULT, ERROR], repeat=5):
            mapping = dict(zip(KINDS, combo))
            ctx.evaluations += 1
            ctx.digests.add(hash((repr(case["source"]), combo)) & 0xFFFFFFFFFFFFFFFF)
            one = {"kind": "one", "source": case["source"], "mapping": mapping, "template": "none", "chart_template": "none"}
            ctx.case = one
            observe(ctx, case["source"], mapping, one)
            run_one(ctx, case["source"], mapping, one, "convert")
        return
    # round trip: sm -> ssc -> sm on SM sources without SSC-only keys
    from simfile.convert import sm_to_ssc, ssc_to_sm
    from simfile.sm import SMChart, SMSimfile

    rng = random.Random(case["seed"])
    ctx.begin(case)
    ctx.mon("roundtrip_sm_ssc_sm")
    sm = SMSimfile.blank() if rng.random() < 0.5 else SMSimfile(string="")
    for k in rng.sample(["TITLE", "ARTIST", "MUSIC", "CUSTOM", "ANIMATIONS", "FREEZES", "DELAYS", "ATTACKS", "DISPLAYBPM", "KEYSOUNDS", "GENRE"], rng.randint(1, 8)):
        sm[k] = rng.choice(["", "v " + k, "a:b", "x;y", "0.000=1.000"])
    sm["OFFSET"], sm["BPMS"] = "0.000", "0.000=120.000"
    sm["STOPS"] = rng.choice(["", "4.000=1.000"])
    if "FREEZES" in sm and rng.random() < 0.5:
        del sm["STOPS"]   # an old file: its stops are spelled FREEZES only (a well-formed list, like any stops)
        sm["FREEZES"] = rng.choice(["", "4.000=1.000", "4.000=1.000,8.000=0.500"])
        ctx.feat("roundtrip_source_with_FREEZES_and_no_STOPS")
    for i in range(rng.randint(0, 3)):
        sm.charts.append(SMChart.from_msd(["dance-single", f"d{i}", "Hard", str(i), "0,0", "0000\n0001\n1000\n0000"]))
    before = sm_state(sm)
    try:
        back = ssc_to_sm(sm_to_ssc(sm))
    except Exception as e:
        ctx.violation(f"roundtrip:raised:{type(e).__name__}", {"exc": repr(e), "source": repr(before)[:400]})
        return
    ok = type(back) is SMSimfile and all(back.get(k, "<absent>") == v for k, v in sm.items()) and \
        [[c[k] for k in M.SIX] for c in back.charts] == before[1]
    ctx.expect(ok, "roundtrip:original-property-or-chart-lost", source=repr(before)[:400], back=repr(sm_state(back))[:400])
    ctx.expect(sm_state(sm) == before, "roundtrip:source-modified")


def _probe_keyerror(ctx):
    from simfile.convert import InvalidPropertyBehavior, PropertyType, ssc_to_sm
    from simfile.ssc import SSCChart, SSCSimfile

    outs = []
    for label, key, mapping in (("MUSIC", "MUSIC", {}), ("NOTES2", "NOTES2", {}), ("unknown key", "FOO", {}),
                                ("CREDIT under COPY_ANYWAY", "CREDIT", {PropertyType.METADATA: InvalidPropertyBehavior.COPY_ANYWAY})):
        s = SSCSimfile.blank()
        c = SSCChart.blank()
        c[key] = "x"
        s.charts.append(c)
        try:
            ssc_to_sm(s, invalid_property_behaviors=mapping)
        except KeyError:
            outs.append(label)
        except Exception:
            pass
    return ("bare KeyError for: " + ", ".join(outs)) if outs else None


PROBES = {
    "smchart-keyerror": (_probe_keyerror, "an SSC chart carrying MUSIC, NOTES2, an unknown key, or any SSC chart property under COPY_ANYWAY makes ssc_to_sm fail with a bare KeyError (SMChart refuses the key) instead of InvalidPropertyException"),
}

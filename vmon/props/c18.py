"""C18 -- Attribute and key views of a simfile or chart never disagree."""
import random
from itertools import permutations, product

from ..ref import dictmodel as M

LEVEL = "exploration"
DESIGN_REF = "5/C18"
TECHNIQUE = "history + executable model: breadth-first exploration of every dictionary-model state x every operation, each executed on a real object rebuilt in that state; plus random 200-step histories over all known properties in lock-step with the model"
LEVEL_TEXT = (
    "For every object kind and aliased (or must-not-be-aliased) property, all 79 model states over {standard key, "
    "alias key, unrelated key} x {'x', ''} are enumerated and every operation (get/set/del by attribute and by each "
    "key, membership, iteration) is executed from each state on a freshly built real object; after each step items, "
    "attribute reads, membership, length, equality with an independently built object and the re-parsed "
    "serialization must match the model. SM charts: all 64 field states x all permitted and refused operations. "
    "Random 200-step histories over all known attributes extend the bounded exploration."
)
LEVEL_NOTE = "Trusts the dictionary model vmon/ref/dictmodel.py (attribute rule in 8 lines, written from the property statement)."
RULE = (
    "bfs: (object kind, property, model state) -> every operation from that state; smchart: (field state) -> every "
    "operation; random: seeded 200-step histories over all known attributes and their keys. Non-trivial when the "
    "state holds at least one key; distinct by canonical JSON."
    ' Round 5: SM chart fields assigned values with blanks around them; twins with the same pairs in reverse insertion order must be unequal.'
    ' Round 6: values with CRLF / lone CR, long values whose only special character is a backslash, a 4000-character SM chart.'
    ' Round 7: tokenizer view of str(obj), == and != against other types, unrelated keys that are substrings of the multi-value keys.'
    ' Round 8: unrelated keys that need escaping (with None values) and the key NOTEDATA on charts.'
    ' Round 9: multi-value values ending in a colon; charts differing by one edge line break must be unequal.'
)
EXHAUSTIVE_PART = "every model state (79 per property x 9 object/property pairs; 64 SM chart states) x every operation"
ASSUMPTIONS = ["vmon/ref/dictmodel.py states the attribute/alias rule"]
MONITORS = ["bfs_step", "smchart_step", "random_step"]
REQUIRED = ["both_spellings_present", "alias_only", "standard_empty_alias_set", "delete_absent", "pseudo_alias_not_honoured",
            "smchart_refused_op", "same_pairs_in_another_insertion_order", "smchart_field_assigned_a_value_with_blanks_around_it",
            "value_with_carriage_return_or_long_with_backslash_only", "unrelated_key_that_needs_escaping_or_is_NOTEDATA"]

# (object kind, attribute, second key).  Where the second key is an alias only for *another* class it must be inert.
TARGETS = [
    ("sm", "stops", "FREEZES"), ("sm", "bgchanges", "ANIMATIONS"), ("sm", "title", "NAME"),
    ("ssc", "bgchanges", "ANIMATIONS"), ("ssc", "stops", "FREEZES"), ("ssc", "warps", "WARPS2"),
    ("sscchart", "notes", "NOTES2"), ("sscchart", "stops", "FREEZES"), ("sscchart", "bpms", "BPMS2"),
]
UNRELATED = "ZZZ"
VALUES = ["x", ""]


def anchors():
    from ..core import pick

    return pick(
        "simfile._private.property:item_property",
        "simfile.sm:SMChart.__getitem__",
        "simfile.sm:SMChart.__setitem__",
        "simfile.sm:SMChart.__delitem__",
    )


def all_states(keys):
    out = [[]]
    for n in range(1, len(keys) + 1):
        for perm in permutations(keys, n):
            for vals in product(VALUES, repeat=n):
                out.append([[k, v] for k, v in zip(perm, vals)])
    return out


def cases(ctx):
    i = 0
    for kind, attr, second in TARGETS:
        keys = [attr.upper(), second, UNRELATED]
        for st in all_states(keys):
            if ctx.mine(i):
                yield {"kind": "bfs", "obj": kind, "attr": attr, "second": second, "state": st}
            i += 1
    for vals in product(VALUES, repeat=6):
        if ctx.mine(i):
            yield {"kind": "smchart", "state": list(vals)}
        i += 1
    if ctx.mine(i):
        # an ordinary long chart: the whole NOTES parameter is several thousand characters
        yield {"kind": "smchart", "state": ["dance-single", "x", "Hard", "9", "0,0", "0000\n0001\n" * 400 + "0000"]}
    i += 1
    ctx.exhaustive = True
    n = ctx.split(1500 if ctx.tier == "quick" else 16 * 5000)
    for _ in range(n):
        yield {"kind": "random", "obj": ctx.rng.choice(["sm", "ssc", "sscchart"]), "seed": ctx.rng.getrandbits(32)}


def build(kind, state):
    from simfile.sm import SMSimfile
    from simfile.ssc import SSCChart, SSCSimfile

    if kind == "sm":
        o = SMSimfile(string="")
    elif kind == "ssc":
        o = SSCSimfile(string="")
    else:
        o = SSCChart()
    for k, v in state:
        o[k] = v
    return o


def ops_for(attr, keys):
    ops = [("getattr",), ("delattr",)]
    ops += [("setattr", v) for v in VALUES]
    for k in keys:
        ops += [("getkey", k), ("delkey", k), ("in", k)]
        ops += [("setkey", k, v) for v in VALUES]
    ops += [("iter",), ("len",)]
    return ops


def do(obj_or_model, op, attr, is_model):
    """Execute op; -> ("ok", result) or ("raise", ExcName)."""
    try:
        o = op[0]
        if is_model:
            m = obj_or_model
            if o == "getattr":
                return ("ok", m.getattr(attr))
            if o == "setattr":
                m.setattr(attr, op[1])
                return ("ok", None)
            if o == "delattr":
                m.delattr(attr)
                return ("ok", None)
            if o == "getkey":
                return ("ok", m.d[op[1]])
            if o == "setkey":
                m.d[op[1]] = op[2]
                return ("ok", None)
            if o == "delkey":
                del m.d[op[1]]
                return ("ok", None)
            if o == "in":
                return ("ok", op[1] in m.d)
            if o == "iter":
                return ("ok", list(m.d))
            if o == "len":
                return ("ok", len(m.d))
        else:
            x = obj_or_model
            if o == "getattr":
                return ("ok", getattr(x, attr))
            if o == "setattr":
                setattr(x, attr, op[1])
                return ("ok", None)
            if o == "delattr":
                delattr(x, attr)
                return ("ok", None)
            if o == "getkey":
                return ("ok", x[op[1]])
            if o == "setkey":
                x[op[1]] = op[2]
                return ("ok", None)
            if o == "delkey":
                del x[op[1]]
                return ("ok", None)
            if o == "in":
                return ("ok", op[1] in x)
            if o == "iter":
                return ("ok", list(x))
            if o == "len":
                return ("ok", len(x))
        raise ValueError(op)
    except KeyError:
        return ("raise", "KeyError")
    except Exception as e:
        return ("raise", type(e).__name__)


def compare_views(ctx, obj, m, attr, keys, label, extra):
    """Everything observable must equal the model's prediction."""
    problems = []
    if list(obj.items()) != m.items():
        problems.append(("items", list(obj.items()), m.items()))
    try:
        got = getattr(obj, attr)
    except Exception as e:
        got = "raised " + type(e).__name__
    if got != m.getattr(attr):
        problems.append(("attribute", got, m.getattr(attr)))
    for k in keys:
        if (k in obj) != (k in m.d):
            problems.append(("membership " + k, k in obj, k in m.d))
    if len(obj) != len(m.d):
        problems.append(("len", len(obj), len(m.d)))
    other = build(m.kind, m.items())
    if not (obj == other and other == obj) or (obj != other):
        problems.append(("equality with independently built object", False, True))
    # against an object of another type holding the same pairs, == and != must at least contradict each other
    from collections import OrderedDict as _OD

    for other_obj in (dict(m.items()), _OD(m.items()), build({"sm": "ssc", "ssc": "sm", "sscchart": "ssc"}[m.kind], m.items()), None):
        try:
            e, n = (obj == other_obj), (obj != other_obj)
        except Exception as ex:
            problems.append(("comparison with another type raised", repr(ex), None))
            break
        if bool(e) == bool(n):
            problems.append((f"== and != agree against a {type(other_obj).__name__}", (e, n), None))
            break
    if len(m.d) >= 2:
        # the same key/value pairs inserted in the opposite order are another mapping (insertion order is content)
        rev = build(m.kind, list(reversed(m.items())))
        ctx.feat("same_pairs_in_another_insertion_order")
        if obj == rev or rev == obj or not (obj != rev):
            problems.append(("equality ignores insertion order", True, False))
    # serialization sees exactly the mapping's content
    if m.kind != "sscchart" or any(k in m.d for k in ("NOTES", "NOTES2")):
        try:
            text = str(obj)
            if m.kind == "sscchart" and "NOTEDATA" in m.d:
                back = want = None   # (re-parsing would start a new chart at that key: only the tokenizer view below applies)
            elif m.kind == "sscchart":
                from simfile.ssc import SSCSimfile

                # through a simfile: SSCChart.from_str stops at the first NOTES/NOTES2 by design
                back = list(SSCSimfile(string="#VERSION:0.83;\n" + text).charts[0].items())
                want = M.SSCChartModel(m.items()).moved_last()
            else:
                back = list(type(obj)(string=text).items())
                want = m.items()
            if back != want:
                problems.append(("serialization", back, want))
            # the text itself, read by the trusted tokenizer: one parameter per pair, components as the format defines them
            from msdparser import parse_msd

            toks = [tuple(p.components) for p in parse_msd(string=text)]
            wtoks = [M.param_components(k, v) for k, v in (m.items() if m.kind != "sscchart" else M.SSCChartModel(m.items()).moved_last())]
            if m.kind == "sscchart":
                toks = toks[1:]   # the NOTEDATA parameter that opens the chart
            if toks != wtoks:
                problems.append(("serialized text (tokenizer)", toks[:6], wtoks[:6]))
            if list(obj.items()) != m.items():
                problems.append(("serializing modified the mapping", list(obj.items()), m.items()))
        except Exception as e:
            problems.append(("serialization raised", repr(e), None))
    if problems:
        ctx.violation(f"{label}:{problems[0][0].split()[0]}", dict(extra, problems=repr(problems)[:700]))
        return False
    return True


def check(ctx, case):
    if case["kind"] == "bfs":
        return check_bfs(ctx, case)
    if case["kind"] == "smchart":
        return check_smchart(ctx, case)
    return check_random(ctx, case)


def check_bfs(ctx, case):
    kind, attr, second, state = case["obj"], case["attr"], case["second"], case["state"]
    std = attr.upper()
    keys = [std, second, UNRELATED]
    ctx.begin(case, nontrivial=bool(state))
    present = {k for k, _ in state}
    is_alias = M.ALIASES[kind].get(attr) == second
    if std in present and second in present:
        ctx.feat("both_spellings_present")
    if second in present and std not in present:
        ctx.feat("alias_only" if is_alias else "pseudo_alias_not_honoured")
    if is_alias and dict(map(tuple, state)).get(std) == "" and second in present:
        ctx.feat("standard_empty_alias_set")
    for op in ops_for(attr, keys):
        ctx.mon("bfs_step")
        obj = build(kind, state)
        m = M.Mapping(kind, [tuple(x) for x in state])
        want = do(m, op, attr, True)
        got = do(obj, op, attr, False)
        extra = {"object": kind, "attr": attr, "state": state, "op": list(op)}
        if op[0] in ("delattr", "delkey") and want[0] == "raise":
            ctx.feat("delete_absent")
        if got != want:
            ctx.violation(f"bfs:{kind}.{attr}:{op[0]}:result", dict(extra, got=repr(got), want=repr(want)))
            continue
        compare_views(ctx, obj, m, attr, keys, f"bfs:{kind}.{attr}:{op[0]}", extra)


def check_smchart(ctx, case):
    from msdparser import parse_msd
    from simfile.sm import SMChart

    state = case["state"]
    ctx.begin(case)
    attrs = M.SMCHART_ATTRS

    order = list(range(6))
    random.Random(repr(state)).shuffle(order)

    def fresh(_n=[0]):
        _n[0] += 1
        if _n[0] % 2:
            c = SMChart.from_msd(list(state))
        else:
            c = SMChart()  # empty constructor, fields assigned in some other order
            for j in order:
                c[M.SIX[j]] = state[j]
        return c, dict(zip(M.SIX, state))

    def views_ok(c, model, label, extra):
        probs = []
        if sorted(c.keys()) != sorted(M.SIX):
            probs.append(("keys", list(c.keys())))
        for a, k in zip(attrs, M.SIX):
            if getattr(c, a) != model[k] or c[k] != model[k]:
                probs.append(("field " + k, getattr(c, a), c[k], model[k]))
        if dict(c.items()) != model:
            probs.append(("items", list(c.items())))
        p = list(parse_msd(string=str(c)))
        # the serializer lays the fields out with its own indentation: blanks around a field are layout in the text
        if not (len(p) == 1 and p[0].components[0] == "NOTES" and [x.strip() for x in p[0].components[1:7]] == [x.strip() for x in model.values()]):
            probs.append(("serialized", [tuple(q.components) for q in p]))
        other = SMChart()
        for kk in M.SIX:
            other[kk] = model[kk]
        if not (c == other):
            probs.append(("equality", False))
        # a chart that differs in one field only by a line break at its edge is another chart
        for kk in ("NOTES", "DESCRIPTION"):
            near = SMChart()
            for k2 in M.SIX:
                near[k2] = model[k2] + ("\n" if k2 == kk else "")
            if c == near or not (c != near):
                probs.append(("equal to a chart whose " + kk + " has one more line break", True))
        if probs:
            ctx.violation(f"smchart:{label}", dict(extra, problems=repr(probs)[:600]))

    for i, (a, k) in enumerate(zip(attrs, M.SIX)):
        for v in VALUES + ["y z", " padded", "12\n", "\tx ", "  ", "AC\\DC", "a\r\nb", "lone\rcr"]:
            if v != v.strip():
                ctx.feat("smchart_field_assigned_a_value_with_blanks_around_it")
            for how in ("attr", "key"):
                ctx.mon("smchart_step")
                c, model = fresh()
                if how == "attr":
                    setattr(c, a, v)
                else:
                    c[k] = v
                model[k] = v
                views_ok(c, model, f"set-by-{how}", {"state": state, "field": k, "value": v})
    refused = [
        ("setitem-unknown-key", lambda c: c.__setitem__("FOO", "v"), (KeyError,)),
        ("setitem-lower-case-key", lambda c: c.__setitem__("notes", "v"), (KeyError,)),
        ("setitem-mixed-case-key", lambda c: c.__setitem__("Meter", "v"), (KeyError,)),
        ("delitem", lambda c: c.__delitem__("METER"), (NotImplementedError, KeyError)),
        ("delattr", lambda c: delattr(c, "meter"), (NotImplementedError, KeyError)),
        ("pop", lambda c: c.pop("METER"), (NotImplementedError, KeyError)),
        ("popitem", lambda c: c.popitem(), (NotImplementedError, KeyError)),
        ("update", lambda c: c.update({"FOO": "v"}), (NotImplementedError, KeyError)),
        ("update-kwargs", lambda c: c.update(FOO="v"), (NotImplementedError, KeyError)),
        ("getitem-unknown-key", lambda c: c["FOO"], (KeyError,)),
    ]
    for label, fn, allowed in refused:
        ctx.mon("smchart_step")
        ctx.feat("smchart_refused_op")
        c, model = fresh()
        try:
            fn(c)
            ctx.violation(f"smchart:{label}:not-refused", {"state": state, "keys_after": list(c.keys())})
        except allowed:
            pass
        except Exception as e:
            ctx.violation(f"smchart:{label}:wrong-exception", {"state": state, "exc": repr(e)})
        views_ok(c, model, f"after-refused-{label}", {"state": state})


def check_random(ctx, case):
    import random

    kind = case["obj"]
    rng = random.Random(case["seed"])
    ctx.begin(case)
    obj = build(kind, [])
    m = M.Mapping(kind)
    attrs = M.ATTRS[kind]
    alias_keys = ["FREEZES", "ANIMATIONS", "NOTES2"]
    HARD = ["a\r\nb", "lone\rcr", "AC\\DC", "bg\\clip.avi " + "y" * 2100, "x" * 2050 + "\\", "two\nlines\r\n", "a:b", "1:2:3", "x:y:", ":", "120.000:", "::a"]
    NEAR_MULTI = ["BPM", "DISPLAY", "ATTACK", "A", "S", "K"]   # unrelated keys that are substrings of the multi-value keys
    # unrelated keys that need escaping when written (a key-only property included); for charts also the keyword NOTEDATA
    ODD_KEYS = ["A:B", "K;", "S\\", "D//E"] + (["NOTEDATA"] if kind == "sscchart" else [])
    for step in range(200):
        a = rng.choice(attrs) if rng.random() < 0.6 else rng.choice(["stops", "notes"] if kind == "sscchart" else ["stops", "bgchanges"])
        r = rng.random()
        if r < 0.45:
            key = rng.choice([a.upper(), rng.choice(alias_keys), UNRELATED, rng.choice(attrs).upper(), rng.choice(NEAR_MULTI), rng.choice(ODD_KEYS)])
            op = rng.choice([("setkey", key, rng.choice(VALUES + ["v%d" % step] + HARD + ([None, None] if key in ODD_KEYS and kind != "sscchart" else []))),
                             ("delkey", key), ("getkey", key), ("in", key)])
            if key in ODD_KEYS and op[0] == "setkey":
                ctx.feat("unrelated_key_that_needs_escaping_or_is_NOTEDATA")
        else:
            op = rng.choice([("setattr", rng.choice(VALUES + ["v%d" % step] + HARD)), ("delattr",), ("getattr",), ("iter",), ("len",)])
        if len(op) > 1 and op[-1] in HARD:
            ctx.feat("value_with_carriage_return_or_long_with_backslash_only")
        if step % 50 == 49:
            # the views and the serialization are compared at several points of the history, not only at its end
            if not compare_views(ctx, obj, m, "stops", ["STOPS", "FREEZES", UNRELATED], f"random:{kind}:step{step}", {"object": kind, "seed": case["seed"]}):
                return
        ctx.mon("random_step")
        want = do(m, op, a, True)
        got = do(obj, op, a, False)
        if got != want:
            ctx.violation(f"random:{kind}:{op[0]}:result", {"object": kind, "attr": a, "op": list(op), "step": step, "got": repr(got), "want": repr(want), "state": m.items()})
            return
        if list(obj.items()) != m.items() or getattr(obj, a) != m.getattr(a):
            ctx.violation(f"random:{kind}:{op[0]}:state", {"object": kind, "attr": a, "op": list(op), "step": step,
                                                            "items": repr(list(obj.items()))[:400], "model": repr(m.items())[:400]})
            return
    compare_views(ctx, obj, m, "stops", ["STOPS", "FREEZES", UNRELATED], f"random:{kind}:final", {"object": kind, "seed": case["seed"]})

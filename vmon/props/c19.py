"""C19 -- Directory and pack discovery finds exactly the right simfiles."""
import os
import shutil
import tempfile

from .. import fsmon

LEVEL = "exploration"
DESIGN_REF = "5/C19"
TECHNIQUE = "runtime oracle on the real SimfileDirectory/SimfilePack/opendir/openpack over generated directory trees known by construction (native temp dir and MemoryFS); boundary recorder on simfile.open logging the loader options of every call"
LEVEL_TEXT = (
    "Generated trees (depth 3; simfile extensions in mixed case, near-miss names, images, audio, loose files, empty "
    "and nested directories, 0-2 simfiles of each kind, files with stray text, UTF-16 files) are built on the native "
    "filesystem and on MemoryFS; every directory is examined as a simfile directory and as a pack, through the "
    "classes and through opendir/openpack, under strict x ignore_duplicate; results (paths, preference, errors, "
    "titles of the loaded simfiles) are compared with the construction, and a recording wrapper on simfile.open "
    "checks that the caller's loader options reach every file that is opened. Held = held on the counted trees."
)
LEVEL_NOTE = "The tree is known by construction; listing order is read through the same filesystem object where the property makes it matter (first listed duplicate wins)."
RULE = (
    "tree = nested {dirs, files} with names from hit / near-miss pools; each tree x {native, memory} x every "
    "directory as simfile directory and as pack x strict {True, False} x ignore_duplicate {False, True}. Non-trivial "
    "when the tree holds at least two simfile-named entries; distinct by canonical JSON of the tree."
    ' Round 5: packs mixing cp1252/cp932/UTF-8 files with non-ASCII titles; directories named like audio, image and simfile files.'
    ' Round 6: names not in Unicode normal form C; filesystem passed positionally to opendir/openpack.'
    " Round 7: native trees rebuilt at one path under one filesystem object, names starting with '._'."
    ' Round 8: near-miss names ending in a line feed or blank.'
)
ASSUMPTIONS = ["MemoryFS and the native filesystem list what was created"]
MONITORS = ["simfile_directory", "pack_listing", "opendir", "openpack", "loader_options_recorder"]
REQUIRED = ["mixed_case_extension", "near_miss_name", "bare_extension_name", "duplicate_sm", "duplicate_ssc", "both_kinds",
            "both_kinds_plus_duplicate", "nested_dir_with_simfile", "empty_dir", "loose_simfile_in_pack", "stray_text_file",
            "utf16_file", "native", "memory", "ignore_duplicate", "sub_directory_named_like_a_simfile",
            "song_directory_named_like_an_audio_or_image_file", "pack_with_simfiles_in_different_encodings",
            "name_not_in_unicode_normal_form_c", "simfile_name_starting_with_dot_underscore", "near_miss_name_ending_in_a_line_feed_or_blank",
            "tree_rebuilt_at_the_same_path_under_the_same_filesystem_object"]

# (the two names with U+0301 / U+212B are NOT in Unicode normal form C: file names are what the filesystem says they are)
SM_NAMES = ["song.sm", "Song.SM", "x.Sm", "a b.sm", ".sm", "chart.old.sm", "z.sM", "Cafe\u0301.sm", "._Song.sm"]
SSC_NAMES = ["song.ssc", "Song.SSC", "x.sSc", "a b.ssc", ".ssc", "chart.sm.ssc", "z.SsC", "Poke\u0301mon \u212b.SSC", "._x.SSC"]
NEAR = ["song.sm.old", "song.ssca", "sm", "ssc", "SM", "x.smx", "song.sm~", "song.ssc.bak", "notes.dwi", "sm.txt", "song.s", "asm", "song_sm",
        "song.sm\n", "x.SSC\n", "song.ssc ", "song.sm\t"]   # a simfile name followed by a line feed / blank is not a simfile name
OTHER = ["banner.png", "bg.jpg", "music.ogg", "readme.txt", "Thumbs.db", "video.avi", "Song 0", "sub0", "Pack.1"]   # the last three: files named as directories usually are


def anchors():
    from ..core import pick

    return pick(
        "simfile.dir:SimfileDirectory.__init__",
        "simfile.dir:SimfileDirectory.open",
        "simfile.dir:SimfilePack._find_simfile_paths",
        "simfile.dir:SimfilePack.simfile_dirs",
        "simfile.dir:SimfilePack.simfiles",
        "simfile:opendir",
        "simfile:openpack",
        "simfile._private.extensions:match",
    )


def gen_dir(rng, depth, content_mode):
    d = {"dirs": {}, "files": {}}
    r = rng.random()
    n_sm = rng.choice([0, 0, 1, 1, 1, 2])
    n_ssc = rng.choice([0, 0, 1, 1, 1, 2])
    if r < 0.12:
        n_sm = n_ssc = 0
    for name in rng.sample(SM_NAMES, n_sm):
        d["files"][name] = content_mode(rng)
    for name in rng.sample(SSC_NAMES, n_ssc):
        d["files"][name] = content_mode(rng)
    for name in rng.sample(NEAR, rng.choice([0, 1, 2, 3])):
        d["files"][name] = "other"
    for name in rng.sample(OTHER, rng.choice([0, 1, 2])):
        d["files"][name] = "other"
    if depth > 0:
        for i in range(rng.choice([0, 1, 2, 3]) if depth > 1 else rng.choice([0, 0, 1])):
            name = rng.choice(["Song %d" % i, "sub%d" % i, "Pack.%d" % i, "songs.sm.d%d" % i, "empty%d" % i,
                               # directories named like files: audio, image and simfile extensions
                               "Night Drive %d.ogg" % i, "Bonus%d.PNG" % i, "demo%d.sm" % i, "old%d.SSC" % i,
                               "Poke\u0301mon %d" % i, "song.sm", "x.Sm"])   # (the last two are usually file names)
            if name in d["files"] or name.lower() in {x.lower() for x in d["files"]}:
                continue
            if name.startswith("empty"):
                d["dirs"][name] = {"dirs": {}, "files": {}}
            else:
                d["dirs"][name] = gen_dir(rng, depth - 1, content_mode)
    return d


def cases(ctx):
    rng = ctx.rng
    n = ctx.split(2500 if ctx.tier == "quick" else 16 * 6000)
    for i in range(n):
        mode = rng.choice(["clean", "clean", "mixed_stray", "utf16", "mixed_enc", "mixed_enc"])
        if mode == "clean":
            cm = lambda r: "clean"
        elif mode == "mixed_enc":
            # non-ASCII titles, some files in a legacy code page and some in UTF-8, side by side in one pack
            cm = lambda r: r.choice(["clean", "cp1252", "cp1252", "utf8na", "utf8na", "cp932"])
        elif mode == "mixed_stray":
            cm = lambda r: r.choice(["clean", "stray", "stray"])
        else:
            cm = lambda r: "utf16"
        yield {"tree": gen_dir(rng, 2, cm), "fs": rng.choice(["native", "memory"]), "mode": mode}


# content kind -> (text appended to the title, encoding of the file). "Caf\u00e9" in UTF-8 also decodes under cp1252
# (as mojibake), the cp1252 and cp932 bytes are not valid UTF-8, and the cp932 bytes also decode under cp1252.
NON_ASCII = {"cp1252": (" Caf\u00e9", "cp1252"), "utf8na": (" Caf\u00e9", "utf-8"), "cp932": (" \u30c6\u30b9\u30c8", "cp932")}


def kind_of(name):
    low = name.lower()
    if low.endswith(".ssc"):
        return "ssc"
    if low.endswith(".sm"):
        return "sm"
    return None


def effective_kind(kind, tag):
    """A legacy code page cannot hold every file name that appears in the title: such files are written in UTF-8."""
    if kind in NON_ASCII:
        try:
            (tag + NON_ASCII[kind][0]).encode(NON_ASCII[kind][1])
        except UnicodeEncodeError:
            return "utf8na"
    return kind


def content(kind, fname, tag):
    kind = effective_kind(kind, tag)
    fmt = kind_of(fname)
    head = "#VERSION:0.83;\n" if fmt == "ssc" else ""
    text = f"{head}#TITLE:{tag};\n#ARTIST:a;\n"
    if kind == "stray":
        text = f"{head}#TITLE:{tag};\nstray text here\n#ARTIST:a;\n"
    if kind in NON_ASCII:
        return text.replace(tag, tag + NON_ASCII[kind][0]).encode(NON_ASCII[kind][1])
    if kind == "utf16":
        return ("﻿" + text).encode("utf-16-le")
    if kind == "other":
        return b"not a simfile"
    return text.encode("utf-8")


_FIXED = {}


class Tree:
    def __init__(self, kind, spec, reuse=False):
        """reuse=True (native only): the tree is built at the SAME absolute path as the previous reused tree of this
        process, and seen through the same filesystem object -- paths that were directories may now be files."""
        self.kind = kind
        self.rec = fsmon.Recorder()
        self.reused = False
        if kind == "native":
            from simfile._private.nativeosfs import NativeOSFS

            if reuse:
                if "base" not in _FIXED:
                    import atexit

                    _FIXED["base"] = tempfile.mkdtemp(prefix="vmon-c19-fixed-")
                    _FIXED["fs"] = NativeOSFS()
                    atexit.register(shutil.rmtree, _FIXED["base"], ignore_errors=True)   # nothing is left behind
                self.root = os.path.join(_FIXED["base"], "pack")
                shutil.rmtree(self.root, ignore_errors=True)
                self.fs = _FIXED["fs"]
                self.reused = True
            else:
                self.root = os.path.join(tempfile.mkdtemp(prefix="vmon-c19-"), "pack")
                self.fs = NativeOSFS()
            os.mkdir(self.root)
            self.join = os.path.join
        else:
            from fs.memoryfs import MemoryFS
            import fs.path

            self.fs = MemoryFS()
            self.root = "/top/pack"
            self.fs.makedirs(self.root)
            self.join = fs.path.join
        self.dirs = []  # (path, spec)
        self._build(self.root, spec, "")

    def _build(self, path, spec, rel):
        self.dirs.append((path, spec, rel))
        for name, kind in spec["files"].items():
            data = content(kind, name, (rel + "/" + name).lstrip("/"))
            p = self.join(path, name)
            if self.kind == "native":
                with open(p, "wb") as f:
                    f.write(data)
            else:
                self.fs.writebytes(p, data)
        for name, sub in spec["dirs"].items():
            p = self.join(path, name)
            if self.kind == "native":
                os.mkdir(p)
            else:
                self.fs.makedir(p)
            self._build(p, sub, (rel + "/" + name).lstrip("/"))

    def norm(self, p):
        if p is None:
            return None
        if self.kind == "native":
            return os.path.normpath(p)
        import fs.path

        return fs.path.normpath(p)

    def close(self):
        if self.kind == "native" and self.reused:
            shutil.rmtree(self.root, ignore_errors=True)
        elif self.kind == "native":
            shutil.rmtree(os.path.dirname(self.root), ignore_errors=True)
        else:
            self.fs.close()


def outcome(fn):
    try:
        return ("ok", fn())
    except Exception as e:
        return ("raise", type(e).__name__)


def check(ctx, case):
    import simfile
    from simfile.dir import DuplicateSimfileError, SimfileDirectory, SimfilePack

    spec = case["tree"]
    t = Tree(case["fs"], spec, reuse=case["fs"] == "native" and ctx.evaluations % 2 == 0)
    if t.reused:
        ctx.feat("tree_rebuilt_at_the_same_path_under_the_same_filesystem_object")
    n_sim = 0
    calls = []
    real_open = simfile.open

    def recording_open(filename, *args, **kwargs):
        calls.append((filename, dict(kwargs)))
        return real_open(filename, *args, **kwargs)

    simfile.open = recording_open  # dir.py looks simfile.open up at call time
    try:
        mode = case["mode"]
        opts_list = [{"strict": True}, {"strict": False}, {}, {"strict": False, "encoding": "utf-8"}, {"strict": True, "encoding": "utf-8"}] \
            if mode != "utf16" else [{"encoding": "utf-16"}, {}, {"encoding": "utf-16", "strict": False}]
        ctx.feat(case["fs"])
        for path, d, rel in t.dirs:
            listing = t.fs.listdir(path)
            sms = [n for n in listing if n in d["files"] and kind_of(n) == "sm"]
            sscs = [n for n in listing if n in d["files"] and kind_of(n) == "ssc"]
            n_sim += len(sms) + len(sscs)
            observe(ctx, d, sms, sscs)
            for ign in (False, True):
                ctx.mon("simfile_directory")
                if ign:
                    ctx.feat("ignore_duplicate")
                dup = (len(sms) > 1 or len(sscs) > 1) and not ign
                kw = {"ignore_duplicate": True} if ign else ({} if ctx.evaluations % 2 else {"ignore_duplicate": False})
                got = outcome(lambda: SimfileDirectory(path, filesystem=t.fs, **kw))
                if dup:
                    if got != ("raise", "DuplicateSimfileError"):
                        ctx.violation("directory:duplicate-not-reported", {"dir": rel, "listing": listing, "got": repr(got), "ignore_duplicate": ign})
                    continue
                if got[0] != "ok":
                    ctx.violation("directory:constructor-raised", {"dir": rel, "listing": listing, "got": repr(got), "ignore_duplicate": ign})
                    continue
                sd = got[1]
                want_sm = t.join(path, sms[0]) if sms else None
                want_ssc = t.join(path, sscs[0]) if sscs else None
                if (t.norm(sd.sm_path), t.norm(sd.ssc_path)) != (t.norm(want_sm), t.norm(want_ssc)):
                    ctx.violation("directory:wrong-paths", {"dir": rel, "listing": listing, "got": [sd.sm_path, sd.ssc_path], "want": [want_sm, want_ssc], "ignore_duplicate": ign})
                    continue
                pref = want_ssc or want_sm
                if t.norm(sd.simfile_path) != t.norm(pref):
                    ctx.violation("directory:simfile_path-not-ssc-first", {"dir": rel, "got": sd.simfile_path, "want": pref})
                # the same object is opened under every option set, in both orders (a later call must not be
                # answered from an earlier one made with other options)
                for opts in (opts_list + opts_list[::-1]) if ign else (opts_list[::-1] + opts_list):
                    check_open(ctx, t, d, pref, lambda **o: sd.open(**o), opts, calls, f"SimfileDirectory.open", rel)
            # opendir
            for opts in opts_list:
                ctx.mon("opendir")
                dup = len(sms) > 1 or len(sscs) > 1
                pref_name = (sscs or sms or [None])[0]
                pref = t.join(path, pref_name) if pref_name else None
                if dup:
                    got = outcome(lambda: simfile.opendir(path, filesystem=t.fs, **opts))
                    ctx.expect(got == ("raise", "DuplicateSimfileError"), "opendir:duplicate-not-reported", dir=rel, got=repr(got))
                    continue

                def via_opendir(**o):
                    # the filesystem is the second positional parameter of opendir and openpack
                    sf, p = simfile.opendir(path, t.fs, **o) if ctx.evaluations % 2 else simfile.opendir(path, filesystem=t.fs, **o)
                    if t.norm(p) != t.norm(pref):
                        raise AssertionError(f"opendir returned path {p!r}, want {pref!r}")
                    return sf

                check_open(ctx, t, d, pref, via_opendir, opts, calls, "opendir", rel)
            # as a pack
            check_pack(ctx, t, path, d, rel, opts_list, calls)
        ctx.begin(case, nontrivial=n_sim >= 2, sample={"fs": case["fs"], "mode": case["mode"], "tree": spec})
    finally:
        simfile.open = real_open
        t.close()


def observe(ctx, d, sms, sscs):
    names = list(d["files"])
    if any(kind_of(n) and n != n.lower() for n in names):
        ctx.feat("mixed_case_extension")
    if any(n in NEAR for n in names):
        ctx.feat("near_miss_name")
    if any(n.lower() in ("sm", "ssc") for n in names):
        ctx.feat("bare_extension_name")
    if len(sms) > 1:
        ctx.feat("duplicate_sm")
    if len(sscs) > 1:
        ctx.feat("duplicate_ssc")
    if sms and sscs:
        ctx.feat("both_kinds")
        if len(sms) > 1 or len(sscs) > 1:
            ctx.feat("both_kinds_plus_duplicate")
    if not d["files"] and not d["dirs"]:
        ctx.feat("empty_dir")
    if any(v == "stray" for v in d["files"].values()):
        ctx.feat("stray_text_file")
    if any(v == "utf16" for v in d["files"].values()):
        ctx.feat("utf16_file")
    if any(kind_of(n) for n in d["dirs"]):
        ctx.feat("sub_directory_named_like_a_simfile")
    if any(n.endswith(("\n", " ", "\t")) for n in names):
        ctx.feat("near_miss_name_ending_in_a_line_feed_or_blank")
    if any(kind_of(n) and n.startswith("._") for n in names):
        ctx.feat("simfile_name_starting_with_dot_underscore")
    import unicodedata

    if any(kind_of(n) and unicodedata.normalize("NFC", n) != n for n in names) or any(unicodedata.normalize("NFC", n) != n for n in d["dirs"]):
        ctx.feat("name_not_in_unicode_normal_form_c")
    if any(n.lower().endswith((".ogg", ".png")) and any(kind_of(x) for x in s["files"]) for n, s in d["dirs"].items()):
        ctx.feat("song_directory_named_like_an_audio_or_image_file")
    encs = {v for s in d["dirs"].values() for n, v in s["files"].items() if kind_of(n) and v in NON_ASCII}
    if len(encs) >= 2:
        ctx.feat("pack_with_simfiles_in_different_encodings")


def expected_load(d, pref_name, opts, rel):
    """What opening the preferred file of directory d must give under opts: ("ok", title) or ("raise", name)."""
    if pref_name is None:
        return ("raise", "FileNotFoundError")
    tag = (rel + "/" + pref_name).lstrip("/")
    kind = effective_kind(d["files"][pref_name], tag)
    if kind == "utf16":
        if opts.get("encoding") == "utf-16":
            return ("ok", tag)
        return ("not-claimed",)
    if kind == "stray" and opts.get("strict", True):
        return ("raise", "MSDParserError")
    if kind in NON_ASCII:
        suffix, enc = NON_ASCII[kind]
        asked = opts.get("encoding")
        if asked is None:
            # detection: the first of utf-8, cp1252, cp932, cp949 that decodes the whole file
            data = (tag + suffix).encode(enc)
            for e in ("utf-8", "cp1252", "cp932", "cp949"):
                try:
                    return ("ok", data.decode(e))
                except UnicodeDecodeError:
                    continue
        try:
            return ("ok", (tag + suffix).encode(enc).decode(asked))
        except UnicodeDecodeError:
            return ("raise", "UnicodeDecodeError")
    return ("ok", tag)


def check_open(ctx, t, d, pref, fn, opts, calls, label, rel):
    pref_name = os.path.basename(pref) if pref else None
    if pref and t.kind != "native":
        pref_name = pref.rsplit("/", 1)[-1]
    want = expected_load(d, pref_name, opts, rel)
    del calls[:]
    got = outcome(lambda: fn(**opts))
    if got[0] == "ok":
        got = ("ok", got[1].title)
    if want == ("not-claimed",):
        return
    if got != want:
        ctx.violation(f"{label}:{want[0]}-vs-{got[0]}", {"dir": rel, "opts": opts, "want": want, "got": repr(got), "files": d["files"]})
        return
    if want[0] in ("ok",) or want[1] == "MSDParserError":
        if not calls:
            # the recorder saw nothing (e.g. simfile.open bound early by a refactoring): the result oracle above
            # still decides; the recorder monitor simply makes no evaluation (zero evaluations = inconclusive)
            ctx.feat("recorder_saw_no_call")
        else:
            ctx.mon("loader_options_recorder")
        for fname, kw in calls:
            missing = {k: v for k, v in opts.items() if kw.get(k) != v}
            if missing:
                ctx.violation(f"{label}:loader-options-not-passed-down", {"dir": rel, "opts": opts, "received": {k: repr(v) for k, v in kw.items() if k != "filesystem"}})
            if kw.get("filesystem") is not t.fs:
                ctx.violation(f"{label}:filesystem-not-passed-down", {"dir": rel})


def check_pack(ctx, t, path, d, rel, opts_list, calls):
    import simfile
    from simfile.dir import SimfilePack

    ctx.mon("pack_listing")
    want_dirs = {}
    for name, sub in d["dirs"].items():
        sims = [n for n in sub["files"] if kind_of(n)]
        if sims:
            want_dirs[t.norm(t.join(path, name))] = (name, sub)
        elif any(kind_of(n) for s2 in sub["dirs"].values() for n in s2["files"]):
            ctx.feat("nested_dir_with_simfile")
    if any(kind_of(n) for n in d["files"]):
        ctx.feat("loose_simfile_in_pack")
    got = outcome(lambda: SimfilePack(path, filesystem=t.fs))
    if got[0] != "ok":
        ctx.violation("pack:constructor-raised", {"dir": rel, "got": repr(got)})
        return
    pack = got[1]
    got_dirs = sorted(t.norm(p) for p in pack.simfile_dir_paths)
    if got_dirs != sorted(want_dirs) or len(got_dirs) != len(set(got_dirs)):
        ctx.violation("pack:wrong-directories", {"dir": rel, "got": got_dirs, "want": sorted(want_dirs)})
        return
    base = path.rstrip("/").rsplit("/", 1)[-1] if t.kind != "native" else os.path.basename(path.rstrip(os.sep))
    ctx.expect(pack.name == base, "pack:name", got=pack.name, want=base)
    if rel == "":
        trail = SimfilePack(path + ("/" if t.kind != "native" else os.sep), filesystem=t.fs)
        ctx.expect(trail.name == base and sorted(t.norm(p) for p in trail.simfile_dir_paths) == got_dirs,
                   "pack:trailing-separator", name=trail.name, want=base)
    # expectations per member directory
    reused = {False: SimfilePack(path, filesystem=t.fs), True: SimfilePack(path, filesystem=t.fs, ignore_duplicate=True)}
    for ign in (False, True):
        members = {}
        any_dup = False
        for p, (name, sub) in want_dirs.items():
            listing = t.fs.listdir(t.join(path, name))
            sms = [n for n in listing if n in sub["files"] and kind_of(n) == "sm"]
            sscs = [n for n in listing if n in sub["files"] and kind_of(n) == "ssc"]
            if len(sms) > 1 or len(sscs) > 1:
                any_dup = True
            pref = (sscs or sms)[0]
            members[t.norm(t.join(t.join(path, name), pref))] = (sub, pref, (rel + "/" + name).lstrip("/"))
        for opts in opts_list[::-1] + opts_list:
            ctx.mon("openpack")
            routes = [("SimfilePack.simfiles", lambda o=opts: [(sf, None) for sf in SimfilePack(path, filesystem=t.fs, ignore_duplicate=ign).simfiles(**o)]),
                      ("SimfilePack.simfiles(reused object)", lambda o=opts: [(sf, None) for sf in reused[ign].simfiles(**o)])]
            if not ign:
                if ctx.evaluations % 2:
                    routes.append(("openpack", lambda o=opts: list(simfile.openpack(path, t.fs, **o))))
                else:
                    routes.append(("openpack", lambda o=opts: list(simfile.openpack(path, filesystem=t.fs, **o))))
            for label, fn in routes:
                del calls[:]
                got = outcome(fn)
                wants = [expected_load(sub, pref, opts, r) for sub, pref, r in members.values()]
                if any_dup and not ign:
                    # members are visited in listing order: a member that fails to load may be reached first
                    ok_errs = {"DuplicateSimfileError"} | {w[1] for w in wants if w[0] == "raise"}
                    if any(w == ("not-claimed",) for w in wants):
                        continue
                    ctx.expect(got[0] == "raise" and got[1] in ok_errs, f"{label}:duplicate-not-reported", dir=rel, got=repr(got)[:200], acceptable=sorted(ok_errs))
                    continue
                if any(w == ("not-claimed",) for w in wants):
                    continue
                errs = [w for w in wants if w[0] == "raise"]
                if errs:
                    ctx.expect(got[0] == "raise" and got[1] in {e[1] for e in errs}, f"{label}:should-raise", dir=rel, opts=opts, got=repr(got)[:200], want=errs)
                    continue
                if got[0] != "ok":
                    ctx.violation(f"{label}:raised", {"dir": rel, "opts": opts, "got": repr(got)})
                    continue
                titles = sorted(sf.title for sf, _ in got[1])
                ctx.expect(titles == sorted(w[1] for w in wants), f"{label}:wrong-simfiles", dir=rel, got=titles, want=sorted(w[1] for w in wants))
                if label == "openpack":
                    paths = sorted(t.norm(p) for _, p in got[1])
                    ctx.expect(paths == sorted(members), "openpack:wrong-paths", got=paths, want=sorted(members))
                    for sf, p in got[1]:
                        m = members.get(t.norm(p))
                        w = expected_load(m[0], m[1], opts, m[2]) if m else None
                        if w and w[0] == "ok" and sf.title != w[1]:
                            ctx.violation("openpack:simfile-path-mismatch", {"path": p, "title": sf.title, "want": w[1]})
                if members and calls:
                    ctx.mon("loader_options_recorder")
                    for fname, kw in calls:
                        missing = {k: v for k, v in opts.items() if kw.get(k) != v}
                        if missing:
                            ctx.violation(f"{label}:loader-options-not-passed-down", {"dir": rel, "opts": opts, "received": {k: repr(v) for k, v in kw.items() if k != "filesystem"}})
                            break

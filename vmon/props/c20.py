"""C20 -- Asset lookup: the named file if it exists, else a pattern match, else None."""
import os
import shutil

from . import c19

LEVEL = "exploration"
DESIGN_REF = "5/C20"
TECHNIQUE = "runtime oracle on the real Assets / SimfilePack.banner over generated directories known by construction (native and MemoryFS): membership oracle from the documented patterns written with str methods, existence and repeat-read monitors"
LEVEL_TEXT = (
    "Generated simfile directories (names that hit, nearly hit and miss every documented pattern in mixed case, "
    "sub-directories, the simfile's property absent / empty / naming an existing file in another letter case / a "
    "missing file / a file in a missing sub-directory) are examined through the real Assets on both filesystems: the "
    "answer must be the named file when it exists, otherwise a member of the pattern-matching entries or None iff "
    "there is none, must exist, and must be the same on a second read; pack banners are checked for extension "
    "priority inside the pack and the pack-named image beside it. Held = held on the counted directories."
)
LEVEL_NOTE = "Which of several matching entries is returned is not claimed (membership oracle); the disc image is not checked; patterns are re-stated with str methods from the documentation."
RULE = (
    "directory = entries from hit / near-miss / miss pools per asset kind + sub-directories; simfile property state "
    "in {absent, empty, existing other-case, existing in sub-directory other-case, missing, missing sub-directory}; "
    "x {native, memory}; packs with 0..n images inside and beside. Non-trivial when at least one entry matches a "
    "pattern; distinct by canonical JSON."
    ' Round 5: the simfile read from the directory itself (an .sm with decoy names written before the .ssc).'
    ' Round 6: named paths that go through a regular file; pack names with regex metacharacters.'
    ' Round 7: trees rebuilt at one path, sub-directories that are symbolic links.'
    ' Round 8: named paths through a missing directory and back (native).'
)
ASSUMPTIONS = ["os.path.splitext defines 'name without last extension'", "MemoryFS and the native filesystem list what was created"]
MONITORS = ["asset_lookup", "exists", "repeat_read", "pack_banner", "simfile_from_directory"]
REQUIRED = ["directory_path_not_normalized", "entry_matches_two_kinds", "multi_dot_name", "specified_other_case", "specified_in_subdir_other_case", "specified_missing_with_pattern_match",
            "specified_missing_subdir_with_pattern_match", "specified_missing_no_match", "pattern_hit", "near_miss_only",
            "no_match_none", "pack_banner_inside", "pack_banner_beside", "pack_banner_none", "pack_sibling_prefix_name", "pack_path_is_a_single_relative_component",
            "native", "memory", "simfile_read_from_directory_holding_sm_and_ssc", "simfile_read_from_directory_holding_only_sm",
            "named_path_goes_through_a_regular_file", "pack_name_with_regex_metacharacters",
            "tree_rebuilt_at_the_same_path_under_the_same_filesystem_object", "named_file_lies_in_a_symlinked_sub_directory",
            "named_path_through_a_missing_directory_and_back"]

IMAGE = [".png", ".jpg", ".jpeg", ".gif", ".bmp"]
AUDIO = [".mp3", ".oga", ".ogg", ".wav"]
KINDS = ["BANNER", "BACKGROUND", "CDTITLE", "JACKET", "CDIMAGE", "MUSIC"]
ATTR = {"BANNER": "banner", "BACKGROUND": "background", "CDTITLE": "cdtitle", "JACKET": "jacket", "CDIMAGE": "cdimage", "MUSIC": "music"}
HITS = {
    "BANNER": ["banner.png", "Banner.PNG", "song-bn.png", "MyBN.jpg", "xxbanner2.gif", "song.bn.png", "Banner-bg.png", "Banner.ogg", "Song ver.2 Banner.PNG"],
    "BACKGROUND": ["background.png", "BG.png", "song-bg.JPG", "my background 1.jpeg", "songBG.bmp", "Mr. Saxobeat-bg.png", "CDTitle BG.jpg"],
    "CDTITLE": ["cdtitle.png", "CDTitle.gif", "my cdtitle 2.png"],
    "JACKET": ["jk_song.png", "JK_x.PNG", "jacket.png", "Song Jacket.jpg", "AlbumArt.jpg", "Jacket-cd.png", "v1.0 albumart.jpeg"],
    "CDIMAGE": ["song-cd.png", "X-CD.PNG", "A.I.-cd.png"],
    "MUSIC": ["song.ogg", "Song.MP3", "a.wav", "b.oga"],
}
NEAR = {
    "BANNER": ["bn-song.png", "ban.png", "bnx.png", "banne.png", "bn.bak.png"],
    "BACKGROUND": ["bgx.png", "backgroun.png", "bg2.png", "bg.old.png"],
    "CDTITLE": ["cdtitl.png", "cd title.png"],
    "JACKET": ["xjk_.png", "jk-song.png", "jacke.png", "album art.png"],
    "CDIMAGE": ["song-cd2.png", "cd.png", "song_cd.png"],
    "MUSIC": ["song.ogg.txt", "song.flac", "ogg", "song.mp4"],
}
MISS = ["readme.txt", "song.sm", "video.avi", "thumbs.db", "notes.doc"]


def anchors():
    from ..core import pick

    return pick(
        "simfile.assets:Assets._asset_property",
        "simfile.assets:Assets._get_case_insensitive_path",
        "simfile.assets:Assets._cache_path",
        "simfile.assets:AssetDefinition.matches",
        "simfile.dir:SimfilePack.banner",
    )


def stem(name):
    return os.path.splitext(name)[0].lower()


def ext_in(name, exts):
    low = name.lower()
    return any(low.endswith(e) for e in exts)


def matches(kind, name):
    s = stem(name)
    if kind == "BANNER":
        return "banner" in s or s.endswith("bn")
    if kind == "BACKGROUND":
        return "background" in s or s.endswith("bg")
    if kind == "CDTITLE":
        return "cdtitle" in s
    if kind == "JACKET":
        return s.startswith("jk_") or "jacket" in s or "albumart" in s
    if kind == "CDIMAGE":
        return s.endswith("-cd")
    if kind == "MUSIC":
        return ext_in(name, AUDIO)
    raise ValueError(kind)


def swapcase_name(rng, name):
    return "".join(c.upper() if rng.random() < 0.5 else c.lower() for c in name)


def cases(ctx):
    rng = ctx.rng
    n = ctx.split(5000 if ctx.tier == "quick" else 16 * 10000)
    for i in range(n):
        if i % 5 == 4:
            yield gen_pack(rng)
            continue
        files = {}
        for k in KINDS:
            r = rng.random()
            if r < 0.45:
                for nm in rng.sample(HITS[k], rng.choice([1, 1, 2])):
                    files[nm] = "other"
            if rng.random() < 0.5:
                for nm in rng.sample(NEAR[k], rng.choice([1, 2])):
                    files[nm] = "other"
        for nm in rng.sample(MISS, rng.randint(0, 3)):
            files[nm] = "other"
        sub = {}
        if rng.random() < 0.6:
            sub["gfx"] = {"dirs": {}, "files": {nm: "other" for nm in rng.sample(["Banner.png", "bg.png", "x.png", "Music.ogg", "jk_a.png", "cdt.png"], rng.randint(1, 4))}}
        if rng.random() < 0.2:
            sub["banner"] = {"dirs": {}, "files": {}}
        props = {}
        for k in KINDS:
            r = rng.random()
            if r < 0.25:
                continue
            if r < 0.35:
                props[k] = ""
            elif r < 0.5 and files:
                props[k] = swapcase_name(rng, rng.choice(sorted(files)))
            elif r < 0.62 and "gfx" in sub:
                props[k] = "gfx/" + swapcase_name(rng, rng.choice(sorted(sub["gfx"]["files"])))
            elif r < 0.72 and "gfx" in sub:
                props[k] = "gfx/" + rng.choice(["missing.png", "nothere.ogg"])  # existing sub-directory, missing file
            elif r < 0.8:
                props[k] = rng.choice(["missing.png", "nothere.ogg", "Banner2.png"])
            elif r < 0.86 and files:
                # a path that goes THROUGH an existing regular file: no such file exists, the pattern match (or None) answers
                props[k] = rng.choice(sorted(files)) + "/" + rng.choice(["banner.png", "x.ogg", "bg/back.png"])
            elif r < 0.89 and files:
                # through a sub-directory that does not exist and back out of it: no such place (decided on the native filesystem)
                props[k] = "nodir/../" + rng.choice(sorted(files))
            elif r < 0.92:
                props[k] = rng.choice(["nodir/x.png", "gfx2/banner.png", "GFX/banner.png"])
            else:
                props[k] = None
        for k in list(props):
            if props[k] and rng.random() < 0.15:
                props[k] = "./" + props[k]
        yield {"kind": "dir", "tree": {"dirs": {"Song": {"dirs": sub, "files": files}}, "files": {}}, "props": props,
               "fs": rng.choice(["native", "memory"]), "sf": rng.choice(["sm", "ssc"]), "dir_spelling": rng.choice([0, 0, 1, 2, 3]),
               # the simfile is read from the directory itself (no simfile= argument): 'ssc' = an .sm holding other
               # asset names is there too (written first) and the .ssc must win; 'sm' = only an .sm file
               "from_files": rng.choice([None, None, None, "ssc", "ssc", "sm"])}


def gen_pack(rng):
    pack = rng.choice(["DDR", "Mix", "My Pack", "a.b", "DDR (AC)", "[Speed] Pack", "C++ Pack", "What?", "Mix^2 $5", "a|b", "Pack{2}", "x*"])
    inside = {}
    for _ in range(rng.choice([0, 0, 1, 2, 3])):
        inside[rng.choice(["banner", "x", pack, "zz"]) + rng.choice(IMAGE + [".PNG", ".JpG", ".txt", ".png.txt"])] = "other"
    beside = {}
    for _ in range(rng.choice([0, 1, 2, 3])):
        nm = rng.choice([pack, pack, pack + " 2ndMIX", pack + "x", "Other", pack.lower() if pack.lower() != pack else pack + "_"]) + rng.choice(IMAGE + [".txt"])
        beside[nm] = "other"
    dirs = {pack: {"dirs": {"Song": {"dirs": {}, "files": {"s.sm": "clean"}}}, "files": inside}}
    if rng.random() < 0.3:
        dirs[pack + " 2ndMIX"] = {"dirs": {}, "files": {}}
    fs_ = rng.choice(["native", "memory", "memory"])
    return {"kind": "pack", "tree": {"dirs": dirs, "files": beside}, "pack": pack, "fs": fs_,
            "relative": fs_ == "memory" and rng.random() < 0.5, "spelling": rng.choice(["{}", "./{}", "{}/"])}


def check(ctx, case):
    # (native trees are rebuilt at one and the same path, under one filesystem object, every second time; in-memory
    # trees likewise share one MemoryFS whose /top is wiped: the same sub-directory path holds other files each time)
    t = c19.Tree(case["fs"], case["tree"], reuse=case["fs"] == "native" and ctx.evaluations % 2 == 0)
    try:
        ctx.feat(case["fs"])
        if t.reused:
            ctx.feat("tree_rebuilt_at_the_same_path_under_the_same_filesystem_object")
        if case["fs"] == "native" and case["kind"] == "dir" and ctx.evaluations % 3 == 0:
            # the sub-directory the simfile points into is a symbolic link to a directory that lives elsewhere
            sub = os.path.join(t.root, "Song", "gfx")
            if os.path.isdir(sub) and not os.path.islink(sub):
                shared = os.path.join(os.path.dirname(t.root), "_shared_gfx_%d" % ctx.evaluations)
                shutil.rmtree(shared, ignore_errors=True)
                shutil.move(sub, shared)
                os.symlink(shared, sub)
                t._extra_cleanup = shared
                ctx.feat("named_file_lies_in_a_symlinked_sub_directory")
        if case["kind"] == "pack":
            return check_pack(ctx, case, t)
        return check_dir(ctx, case, t)
    finally:
        if getattr(t, "_extra_cleanup", None):
            shutil.rmtree(t._extra_cleanup, ignore_errors=True)
        t.close()


def check_dir(ctx, case, t):
    from simfile.assets import Assets
    from simfile.sm import SMSimfile
    from simfile.ssc import SSCSimfile

    song = case["tree"]["dirs"]["Song"]
    sdir = t.join(t.root, "Song")
    spelling = case.get("dir_spelling", 0)
    if spelling == 1:
        sdir = t.join(t.root, ".", "Song")
    elif spelling == 2:
        sdir = t.join(t.root, "Song", "..", "Song")
    elif spelling == 3:
        sdir = t.root + "//Song"
    if spelling:
        ctx.feat("directory_path_not_normalized")
    sf = (SMSimfile if case["sf"] == "sm" else SSCSimfile).blank()
    for k in KINDS:
        if k in sf:
            del sf[k]
    for k, v in case["props"].items():
        sf[k] = v
    entries = list(song["files"]) + list(song["dirs"])
    any_match = any(matches(k, e) for k in KINDS for e in entries)
    if any(sum(matches(k, e) for k in KINDS) >= 2 for e in entries):
        ctx.feat("entry_matches_two_kinds")
    if any(e.count(".") >= 2 for e in entries):
        ctx.feat("multi_dot_name")
    ctx.begin(case, nontrivial=any_match)
    ff = case.get("from_files")
    if ff and any(c19.kind_of(n) for n in entries):
        ff = None  # the generated directory already holds something named like a simfile
    if ff:
        def put(name, s):
            p = t.join(t.root, "Song", name)
            if t.kind == "native":
                with open(p, "w", encoding="utf-8") as fh:
                    fh.write(str(s))
            else:
                t.fs.writetext(p, str(s), encoding="utf-8")

        if ff == "ssc":
            decoy = SMSimfile.blank()
            for k in KINDS:
                if k in decoy:
                    del decoy[k]
            names = sorted(song["files"])
            for i, k in enumerate(KINDS):
                if k in SMSimfile.blank():
                    # other (existing or missing) names than the SSC's
                    decoy[k] = names[(i * 7 + 3) % len(names)] if names and i % 2 else "decoy-missing.png"
            put("aaa-first.sm", decoy)
            sf2 = SSCSimfile.blank()
            for k in KINDS:
                if k in sf2:
                    del sf2[k]
            for k, v in case["props"].items():
                sf2[k] = v
            sf = sf2
            put("zzz-second.ssc", sf)
            ctx.feat("simfile_read_from_directory_holding_sm_and_ssc")
        else:
            sfm = SMSimfile.blank()
            for k in KINDS:
                if k in sfm:
                    del sfm[k]
            for k, v in case["props"].items():
                if v is not None:
                    sfm[k] = v
            sf = sfm
            put("only.sm", sf)
            ctx.feat("simfile_read_from_directory_holding_only_sm")
        mk = lambda: Assets(sdir, filesystem=t.fs)
    else:
        mk = lambda: Assets(sdir, simfile=sf, filesystem=t.fs)
    assets = mk()
    if ff:
        ctx.mon("simfile_from_directory")
        if not (type(assets.simfile) is type(sf) and assets.simfile == type(sf)(string=str(sf))):
            ctx.violation("assets:simfile-read-from-directory-is-not-the-preferred-one",
                          {"from_files": ff, "got_type": type(assets.simfile).__name__, "got_keys": list(assets.simfile.keys())[:12]})
            return
    # a second loader object asked in the opposite order must give the same answers (no cross-kind state)
    other = mk()
    rev = {}
    for k in reversed(KINDS):
        try:
            rev[k] = getattr(other, ATTR[k])
        except Exception as e:
            rev[k] = "raised " + type(e).__name__
    answers = {}
    for k in KINDS:
        ctx.mon("asset_lookup")
        spec = case["props"].get(k)
        named = []
        if spec and "nodir/../" in spec:
            if t.kind != "native":
                continue   # (PyFilesystem joins paths lexically: 'nodir/..' vanishes before anything is looked up; not claimed)
            ctx.feat("named_path_through_a_missing_directory_and_back")
        if spec and any(p in song["files"] for p in [x for x in spec.split("/") if x != "."][:-1]):
            ctx.feat("named_path_goes_through_a_regular_file")
        if spec:
            parts = [x for x in spec.split("/") if x != "."]
            d = song
            ok = True
            for p in parts[:-1]:
                if p in d["dirs"]:
                    d = d["dirs"][p]
                else:
                    ok = False
                    break
            if ok:
                for e in list(d["files"]) + list(d["dirs"]):
                    if e.lower() == parts[-1].lower():
                        named.append(t.norm(t.join(sdir, *parts[:-1], e)))
        loose = [t.norm(t.join(sdir, e)) for e in entries if matches(k, e)]
        strict = [t.norm(t.join(sdir, e)) for e in entries if matches(k, e) and (k == "MUSIC" or ext_in(e, IMAGE))]
        try:
            got = getattr(assets, ATTR[k])
        except Exception as e:
            ctx.violation(f"asset:{k}:raised:{type(e).__name__}", {"spec": spec, "entries": entries, "exc": repr(e)})
            continue
        detail = {"kind": k, "spec": spec, "entries": entries, "subdirs": {n: list(s["files"]) for n, s in song["dirs"].items()}, "got": got}
        if named:
            ctx.feat("specified_in_subdir_other_case" if len([x for x in spec.split("/") if x != "."]) > 1 else "specified_other_case")
            ctx.expect(got in named, f"asset:{k}:named-file-exists-but-not-returned", want=named, **detail)
        else:
            if spec:
                miss_sub = len([x for x in spec.split("/") if x != "."]) > 1
                if loose:
                    ctx.feat("specified_missing_subdir_with_pattern_match" if miss_sub else "specified_missing_with_pattern_match")
                else:
                    ctx.feat("specified_missing_no_match")
            if loose:
                ctx.feat("pattern_hit")
            elif any(e in NEAR[k] for e in entries):
                ctx.feat("near_miss_only")
            if got is None:
                if strict:
                    ctx.violation(f"asset:{k}:None-although-an-entry-matches", dict(detail, matching=strict))
                else:
                    ctx.feat("no_match_none")
            else:
                ctx.expect(got in loose, f"asset:{k}:answer-is-not-a-matching-entry", matching=loose, **detail)
        ctx.mon("exists")
        if got is not None:
            ctx.expect(t.fs.exists(got), f"asset:{k}:answer-does-not-exist", **detail)
        ctx.mon("repeat_read")
        again = getattr(assets, ATTR[k])
        ctx.expect(again == got, f"asset:{k}:second-read-differs", again=again, **detail)
        answers[k] = got
        # with several matching entries either may be returned, but then both must be acceptable; when the
        # acceptable set is a single path the two loaders must agree
        acc = set(named) if named else set(loose)
        if len(acc) <= 1 and rev.get(k) != got:
            ctx.violation(f"asset:{k}:answer-depends-on-the-order-of-questions", dict(detail, asked_first=got, asked_in_reverse_order=rev.get(k)))


class _Rooted:
    """A Tree seen through a sub-filesystem rooted at the tree's root (paths become relative to it)."""

    def __init__(self, tree, sub):
        self.kind, self.fs, self.root, self.join = "memory", sub, "", tree.join
        import fs.path

        self._norm = fs.path.normpath

    def norm(self, p):
        return None if p is None else self._norm(p).lstrip("/")


def check_pack(ctx, case, t):
    from simfile.dir import SimfilePack

    pack = case["pack"]
    pdir = t.join(t.root, pack)
    if any(ch in pack for ch in "()[]{}+*?^$|"):
        ctx.feat("pack_name_with_regex_metacharacters")
    if case.get("relative"):
        # the same pack seen from a filesystem rooted at its parent: the pack path is one relative component
        from fs.subfs import SubFS

        t = _Rooted(t, SubFS(t.fs, t.root))
        pdir = case["spelling"].format(pack)
        ctx.feat("pack_path_is_a_single_relative_component")
    inside = list(case["tree"]["dirs"][pack]["files"])
    siblings = list(case["tree"]["files"]) + [d for d in case["tree"]["dirs"] if d != pack]
    ctx.begin(case, nontrivial=bool(inside or siblings))
    ctx.mon("pack_banner")
    if any(s.startswith(pack) and not any(s == pack + e for e in IMAGE) and ext_in(s, IMAGE) for s in siblings):
        ctx.feat("pack_sibling_prefix_name")
    prio = lambda name: next(i for i, e in enumerate(IMAGE) if name.lower().endswith(e))
    imgs = [e for e in inside if ext_in(e, IMAGE)]
    try:
        got = SimfilePack(pdir, filesystem=t.fs).banner()
    except Exception as e:
        ctx.violation(f"pack-banner:raised:{type(e).__name__}", {"inside": inside, "siblings": siblings, "exc": repr(e)})
        return
    detail = {"pack": pack, "inside": inside, "siblings": siblings, "got": got}
    if imgs:
        ctx.feat("pack_banner_inside")
        best = min(prio(e) for e in imgs)
        want = [t.norm(t.join(pdir, e)) for e in imgs if prio(e) == best]
        ctx.expect(got is not None and t.norm(got) in want, "pack-banner:not-the-best-extension-inside", want=want, **detail)
        return
    exact = [s for s in siblings if any(s == pack + e for e in IMAGE)]
    ci = [s for s in siblings if s[: len(pack)] == pack and ext_in(s, IMAGE) and len(s) - len(pack) in (4, 5) and s[len(pack):].lower() in IMAGE]
    if got is None:
        if exact:
            ctx.violation("pack-banner:None-although-an-image-beside-carries-the-pack-name", detail)
        else:
            ctx.feat("pack_banner_none")
        return
    ctx.feat("pack_banner_beside")
    base = os.path.basename(got) if t.kind == "native" else got.rsplit("/", 1)[-1]
    parent_ok = t.norm(got) == t.norm(t.join(t.root, base))
    ok = parent_ok and base in ci and (not exact or prio(base) <= min(prio(e) for e in exact))
    ctx.expect(ok, "pack-banner:beside-image-wrong", exact=exact, acceptable=ci, **detail)
    ctx.expect(t.fs.exists(got), "pack-banner:answer-does-not-exist", **detail)

"""
Dictionary model of simfiles and charts (DESIGN 4.3): an ordered mapping plus a list of chart models,
with the documented attribute/alias rule.  Used as the shadow model of edit histories (C01, C02, C18).
"""
from collections import OrderedDict

SIX = ["STEPSTYPE", "DESCRIPTION", "DIFFICULTY", "METER", "RADARVALUES", "NOTES"]

BASE_ATTRS = ["title", "subtitle", "artist", "titletranslit", "subtitletranslit", "artisttranslit", "genre",
              "credit", "samplestart", "samplelength", "selectable", "instrumenttrack", "timesignatures", "banner",
              "background", "lyricspath", "cdtitle", "music", "bgchanges", "fgchanges", "keysounds", "attacks",
              "tickcounts", "offset", "bpms", "stops", "delays", "displaybpm"]
SSC_ATTRS = BASE_ATTRS + ["version", "origin", "labels", "musiclength", "lastsecondhint", "previewvid", "jacket",
                          "cdimage", "discimage", "preview", "combos", "speeds", "scrolls", "fakes", "warps"]
SSCCHART_ATTRS = ["stepstype", "description", "difficulty", "meter", "radarvalues", "notes", "chartname", "chartstyle",
                  "credit", "timesignatures", "music", "tickcounts", "combos", "speeds", "scrolls", "fakes", "attacks",
                  "bpms", "stops", "delays", "warps", "labels", "offset", "displaybpm"]
SMCHART_ATTRS = ["stepstype", "description", "difficulty", "meter", "radarvalues", "notes"]

ATTRS = {"sm": BASE_ATTRS, "ssc": SSC_ATTRS, "sscchart": SSCCHART_ATTRS, "smchart": SMCHART_ATTRS}
ALIASES = {
    "sm": {"stops": "FREEZES", "bgchanges": "ANIMATIONS"},
    "ssc": {"bgchanges": "ANIMATIONS"},
    "sscchart": {"notes": "NOTES2"},
    "smchart": {},
}
MULTI = ("ATTACKS", "DISPLAYBPM")


class Mapping:
    """Ordered mapping with the attribute rule of one object kind."""

    def __init__(self, kind, items=()):
        self.kind = kind
        self.d = OrderedDict(items)

    def key_for(self, attr):
        name = attr.upper()
        alias = ALIASES[self.kind].get(attr)
        if name not in self.d and alias and alias in self.d:
            return alias
        return name

    def getattr(self, attr):
        return self.d.get(self.key_for(attr))

    def setattr(self, attr, v):
        self.d[self.key_for(attr)] = v

    def delattr(self, attr):
        del self.d[self.key_for(attr)]  # KeyError when absent

    def items(self):
        return list(self.d.items())

    def copy(self):
        return Mapping(self.kind, self.d.items())


class SMChartModel:
    def __init__(self, fields, extra=None):
        self.f = OrderedDict(zip(SIX, fields))
        self.extra = None if extra is None else list(extra)

    def six(self):
        return list(self.f.values())

    def copy(self):
        return SMChartModel(self.six(), self.extra)

    def eq(self, other):  # SMChart.__eq__: the six fields
        return self.six() == other.six()


class SSCChartModel(Mapping):
    def __init__(self, items=()):
        super().__init__("sscchart", items)

    def copy(self):
        return SSCChartModel(self.d.items())

    def eq(self, other):  # OrderedDict equality: same pairs in the same order
        return self.items() == other.items()

    def notes_key(self):
        return "NOTES2" if "NOTES" not in self.d and "NOTES2" in self.d else "NOTES"

    def moved_last(self):
        nk = self.notes_key()
        it = [(k, v) for k, v in self.d.items() if k != nk]
        if nk in self.d:
            it.append((nk, self.d[nk]))
        return it


class SimfileModel(Mapping):
    def __init__(self, kind, items=(), charts=()):
        super().__init__(kind, items)
        self.charts = list(charts)

    def copy(self):
        return SimfileModel(self.kind, self.d.items(), [c.copy() for c in self.charts])


def param_components(key, value):
    """The MSD components the serializer emits for one simfile/SSC-chart property."""
    if value is None:
        return (key,)
    if key in MULTI:
        return (key, *value.split(":"))
    return (key, value)


def smchart_components(six, extra):
    return ("NOTES", *("\n     " + f for f in six[:5]), "\n" + six[5] + "\n", *(extra or []))

"""
Reference model of group_notes / counting, written from the documentation.

Notes are plain tuples (beat: Fraction, column: int, type: str char, player: int, keysound: int|None).
Emitted items are ("N", note) for a plain note and ("T", note, tail_beat) for a head joined to its tail.
"""

HEADS = ("2", "4")
TAIL = "3"
DEFAULT_TYPES = frozenset("124L")

RAISE, KEEP, DROP = 1, 2, 3
SEPARATE, BY_TYPE, ALL = 1, 2, 3


class Raised(Exception):
    def __init__(self, note):
        self.note = note


def classify(notes):
    """Pass 1: pair heads with tails per column.

    -> (pairs {head_index: tail_index}, orphan_events [(kind, index)] in processing order)
    kind is "tail" (tail with no open head) or "head" (head interrupted / never closed).
    """
    open_heads = {}  # column -> index, insertion order == opening order
    pairs = {}
    events = []
    for i, n in enumerate(notes):
        col, typ = n[1], n[2]
        if typ == TAIL:
            if col in open_heads:
                pairs[open_heads.pop(col)] = i
            else:
                events.append(("tail", i))
        else:
            if col in open_heads:
                events.append(("head", open_heads.pop(col)))
            if typ in HEADS:
                open_heads[col] = i
    for col, i in open_heads.items():
        events.append(("head", i))
    return pairs, events


def joined(notes, orphaned_head, orphaned_tail):
    """Pass 2: the item sequence with heads joined to tails, or Raised."""
    pairs, events = classify(notes)
    for kind, i in events:
        pol = orphaned_head if kind == "head" else orphaned_tail
        if pol == RAISE:
            raise Raised(notes[i])
    dropped = set()
    for kind, i in events:
        pol = orphaned_head if kind == "head" else orphaned_tail
        if pol == DROP:
            dropped.add(i)
    paired_tails = set(pairs.values())
    out = []
    for i, n in enumerate(notes):
        if i in dropped or i in paired_tails:
            continue
        if i in pairs:
            out.append(("T", n, notes[pairs[i]][0]))
        else:
            out.append(("N", n))
    return out


def group(notes, include, same_beat, join, orphaned_head=RAISE, orphaned_tail=RAISE):
    notes = [n for n in notes if n[2] in include]
    items = joined(notes, orphaned_head, orphaned_tail) if join else [("N", n) for n in notes]
    rows = []
    for it in items:
        if rows and rows[-1][0][1][0] == it[1][0]:
            rows[-1].append(it)
        else:
            rows.append([it])
    out = []
    for row in rows:
        if same_beat == SEPARATE:
            out.extend([it] for it in row)
        elif same_beat == ALL:
            out.append(row)
        else:
            seen = []
            for it in row:
                t = it[1][2]
                if t not in seen:
                    seen.append(t)
            for t in seen:
                out.append([it for it in row if it[1][2] == t])
    return out


def count_steps(notes, include=DEFAULT_TYPES, same_beat=ALL, minimum=1):
    return sum(len(g) >= minimum for g in group(notes, include, same_beat, False))


def count_mines(notes):
    return sum(n[2] == "M" for n in notes)


def count_heads(notes, head, orphaned_head=RAISE, orphaned_tail=RAISE):
    return len(group(notes, frozenset((head, TAIL)), SEPARATE, True, orphaned_head, orphaned_tail))


def expected_ungrouped(notes, include, join, orphaned_head, orphaned_tail):
    """What ungroup(group(...)) must give back (as a list, stream order) for KEEP/DROP policies."""
    notes = [n for n in notes if n[2] in include]
    if not join:
        return notes
    pairs, events = classify(notes)
    dropped = set()
    for kind, i in events:
        pol = orphaned_head if kind == "head" else orphaned_tail
        if pol == RAISE:
            raise Raised(notes[i])
        if pol == DROP:
            dropped.add(i)
    return [n for i, n in enumerate(notes) if i not in dropped]

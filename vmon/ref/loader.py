"""
The documented loading rules, applied to a stream of (key, components) parameters (DESIGN 5/C03).
Consumes the stream lazily so that the first error in text order is the one reported.
Result: ("ok", format, items, charts) or ("raise", exception class name).
"""
from collections import OrderedDict

MULTI = ("ATTACKS", "DISPLAYBPM")


class Short(Exception):
    pass


def value_of(key, comps):
    if key in MULTI:
        return ":".join(comps)
    return comps[0] if comps else None


def load_sm(params):
    props = OrderedDict()
    charts = []
    for key, comps in params:
        k = key.upper()
        if k == "NOTES":
            if len(comps) < 6:
                raise Short()
            charts.append(([c.strip() for c in comps[:6]], list(comps[6:])))
        else:
            props[k] = value_of(k, comps)
    return list(props.items()), charts


def load_ssc(params):
    props = OrderedDict()
    charts = []
    cur = None
    for key, comps in params:
        k = key.upper()
        if k == "NOTEDATA":
            if cur is not None:
                charts.append(list(cur.items()))
            cur = OrderedDict()
        elif cur is not None:
            cur[k] = value_of(k, comps)
        else:
            props[k] = value_of(k, comps)
    if cur is not None:
        charts.append(list(cur.items()))
    return list(props.items()), charts


def load_ssc_chart(params):
    """SSCChart.from_str: NOTEDATA first, parsing ends at NOTES/NOTES2."""
    it = iter(params)
    key, comps = next(it)
    if key.upper() != "NOTEDATA":
        raise Short()
    cur = OrderedDict()
    for key, comps in it:
        k = key.upper()
        cur[k] = value_of(k, comps)
        if k in ("NOTES", "NOTES2"):
            break
    return list(cur.items())


def tokenizer_params(text, strict):
    from msdparser import parse_msd

    for p in parse_msd(string=text, ignore_stray_text=not strict):
        yield p.components[0], list(p.components[1:])


def first_key(text):
    """Upper-cased key of the first parameter, None if there is none; tokenizer errors propagate."""
    from msdparser import parse_msd

    for p in parse_msd(string=text, ignore_stray_text=True):
        return p.components[0].upper()
    return None


def expect(text, fmt, strict):
    """fmt in {"sm", "ssc", "auto", "sscchart"} -> expectation tuple."""
    from msdparser import MSDParserError

    try:
        if fmt == "auto":
            fmt = "ssc" if first_key(text) == "VERSION" else "sm"
        params = tokenizer_params(text, strict)
        if fmt == "sm":
            items, charts = load_sm(params)
        elif fmt == "ssc":
            items, charts = load_ssc(params)
        else:
            return ("ok", "sscchart", load_ssc_chart(params), None)
        return ("ok", fmt, items, charts)
    except Short:
        return ("raise", "ValueError")
    except MSDParserError:
        return ("raise", "MSDParserError")


def observe(obj):
    """Real object -> the same vocabulary."""
    from simfile.sm import SMSimfile
    from simfile.ssc import SSCChart, SSCSimfile

    if type(obj) is SMSimfile:
        charts = [([c.stepstype, c.description, c.difficulty, c.meter, c.radarvalues, c.notes], list(c.extradata or []))
                  for c in obj.charts]
        return ("ok", "sm", list(obj.items()), charts)
    if type(obj) is SSCSimfile:
        return ("ok", "ssc", list(obj.items()), [list(c.items()) for c in obj.charts])
    if type(obj) is SSCChart:
        return ("ok", "sscchart", list(obj.items()), None)
    return ("ok", "?" + type(obj).__name__, None, None)

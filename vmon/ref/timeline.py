"""Exact-rational timeline: the oracle for C11, C12, C13 (written from the property statements)."""
from bisect import bisect_right
from fractions import Fraction

# EventTag values
WARP, WARP_END, BPM, DELAY, DELAY_END, STOP, STOP_END = range(7)


class Timeline:
    def __init__(self, bpms, stops, delays, warps, offset):
        """All arguments exact: lists of (beat Fraction, value Fraction); warps (beat, length)."""
        self.bpms = sorted(bpms)
        self.stops = sorted(stops)
        self.delays = sorted(delays)
        self.offset = offset
        self.bpm_beats = [b for b, _ in self.bpms]
        # union of [b, b+len), merging overlapping and touching intervals
        U = []
        for b, l in sorted(warps):
            if l <= 0:
                continue   # a warp of no length skips nothing
            e = b + l
            if U and b <= U[-1][1]:
                if e > U[-1][1]:
                    U[-1][1] = e
            else:
                U.append([b, e])
        self.U = [(a, b) for a, b in U]
        self.U_starts = [a for a, _ in self.U]
        pts = {Fraction(0)}
        pts.update(b for b in self.bpm_beats if b >= 0)
        for a, b in self.U:
            pts.update((a, b))
        self.pts = sorted(p for p in pts if p >= 0)
        self.cum = [Fraction(0)]
        for i in range(1, len(self.pts)):
            a, b = self.pts[i - 1], self.pts[i]
            self.cum.append(self.cum[-1] + (Fraction(0) if self.in_warp(a) else (b - a) * 60 / self.bpm(a)))
        self.stop_beats = {b for b, _ in self.stops}
        self.delay_beats = {b for b, _ in self.delays}

    def in_warp(self, x):
        i = bisect_right(self.U_starts, x) - 1
        return i >= 0 and self.U[i][0] <= x < self.U[i][1]

    def warp_of(self, x):
        i = bisect_right(self.U_starts, x) - 1
        if i >= 0 and self.U[i][0] <= x < self.U[i][1]:
            return self.U[i]
        return None

    def bpm(self, x):
        if x < 0:
            return self.bpms[0][1]
        i = bisect_right(self.bpm_beats, x) - 1
        return self.bpms[max(i, 0)][1]

    def flow(self, x):
        if x < 0:
            return x * 60 / self.bpms[0][1]
        i = bisect_right(self.pts, x) - 1
        a = self.pts[i]
        return self.cum[i] + (Fraction(0) if self.in_warp(a) else (x - a) * 60 / self.bpm(a))

    def time(self, x, tag=STOP):
        t = -self.offset + self.flow(x)
        for b, v in self.stops:
            if b < x or (b == x and tag >= STOP_END):
                t += v
            elif b > x:
                break
        for b, v in self.delays:
            if b < x or (b == x and tag >= DELAY_END):
                t += v
            elif b > x:
                break
        return t

    def hittable(self, x):
        return not (self.in_warp(x) and x not in self.stop_beats and x not in self.delay_beats)

    def pause_beats(self):
        return sorted(self.stop_beats | self.delay_beats)

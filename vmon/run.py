"""
vmon.run -- command line: python -m vmon.run <ID> [quick|thorough] [--replay FILE]

Exit codes: 0 held, 1 violated (VIOLATION line printed), 2 inconclusive, 3 harness error.
"""
import array
import importlib
import json
import os
import shutil
import subprocess
import sys
import tempfile
import time

from . import core


def load_module(pid):
    return importlib.import_module(f"vmon.props.{pid.lower()}")


def usage():
    print("usage: ./check <ID> [quick|thorough] [--replay FILE] | ./check --setup | ./check --list")
    return 3


def setup():
    os.makedirs(core.EVIDENCE, exist_ok=True)
    os.makedirs(core.REPLAYS, exist_ok=True)
    import fs  # noqa: F401
    import msdparser  # noqa: F401

    path = core.assert_repo_import()
    print(f"setup ok: simfile from {path}; python {sys.version.split()[0]}")
    return 0


def main(argv):
    if not argv:
        return usage()
    if argv[0] == "--setup":
        return setup()
    if argv[0] == "--list":
        d = os.path.join(os.path.dirname(__file__), "props")
        print(" ".join(sorted(f[:-3].upper() for f in os.listdir(d) if f.startswith("c") and f.endswith(".py"))))
        return 0
    pid = argv[0].upper()
    tier = os.environ.get("VERIF_TIER") or "quick"
    replay = None
    shard = None
    out = None
    i = 1
    while i < len(argv):
        a = argv[i]
        if a in ("quick", "thorough"):
            tier = a
        elif a == "--replay":
            i += 1
            replay = argv[i]
        elif a == "--shard":
            i += 1
            shard = argv[i]
        elif a == "--out":
            i += 1
            out = argv[i]
        else:
            return usage()
        i += 1
    seed = int(os.environ.get("VERIF_SEED") or 0)

    try:
        core.assert_repo_import()
    except core.Inconclusive as e:
        print(f"INCONCLUSIVE property={pid} reason={e}")
        return 2
    mod = load_module(pid)

    if replay:
        rec = json.load(open(replay))
        ctx = core.Ctx(pid, rec.get("tier", tier), rec.get("seed", seed), replaying=True)
        res, _ = core.run_shard(mod, ctx, replay_case=rec["case"])
        if res["status"] != "ok":
            print(f"INCONCLUSIVE property={pid} reason={res['reason']}")
            return 2
        if not ctx.violations:
            print(f"replay of {replay}: no violation on this tree")
        return 1 if ctx.violations else 0

    if shard is not None:
        k, n = (int(x) for x in shard.split("/"))
        ctx = core.Ctx(pid, tier, seed, k, n)
        res, digests = core.run_shard(mod, ctx)
        with open(out, "w") as f:
            json.dump(res, f, default=repr)
        with open(out + ".dig", "wb") as f:
            digests.tofile(f)
        return 0

    t0 = time.time()
    jobs = 1
    if tier == "thorough":
        jobs = int(os.environ.get("VERIF_JOBS") or min(16, os.cpu_count() or 1))
        jobs = max(1, min(jobs, getattr(mod, "MAX_SHARDS", 16)))
    results, digests = [], set()
    if jobs == 1:
        ctx = core.Ctx(pid, tier, seed, 0, 1)
        res, dig = core.run_shard(mod, ctx)
        results.append(res)
        digests.update(dig)
    else:
        tmp = tempfile.mkdtemp(prefix="vmon-shards-")
        try:
            procs = []
            for k in range(jobs):
                o = os.path.join(tmp, f"s{k}.json")
                cmd = [sys.executable, "-B", "-W", "ignore", "-m", "vmon.run", pid, tier,
                       "--shard", f"{k}/{jobs}", "--out", o]
                procs.append((k, o, subprocess.Popen(cmd, cwd=core.VERIF)))
            limit = float(os.environ.get("VERIF_WATCHDOG_S") or 7200) + 120
            for k, o, p in procs:
                try:
                    p.wait(timeout=max(1.0, limit - (time.time() - t0)))
                except subprocess.TimeoutExpired:
                    p.kill()
                    p.wait()
                if os.path.exists(o) and os.path.exists(o + ".dig"):
                    results.append(json.load(open(o)))
                    a = array.array("Q")
                    with open(o + ".dig", "rb") as f:
                        a.frombytes(f.read())
                    digests.update(a)
                else:
                    results.append({"status": "inconclusive",
                                    "reason": f"shard {k} died or timed out (exit {p.returncode})"})
        finally:
            shutil.rmtree(tmp, ignore_errors=True)
    return conclude(mod, pid, tier, seed, results, digests, time.time() - t0, jobs)


def conclude(mod, pid, tier, seed, results, digests, wall, jobs):
    from collections import Counter

    feats, outs, skipped, mons = Counter(), Counter(), Counter(), Counter()
    evaluations = 0
    samples, violations, known, notes = [], [], [], {}
    status, reasons = "ok", []
    exhaustive = True
    for r in results:
        if r.get("status") != "ok":
            status = r.get("status") if status == "ok" or r.get("status") == "harness-error" else status
            reasons.append(r.get("reason", ""))
        feats.update(r.get("features", {}))
        outs.update(r.get("outcomes", {}))
        skipped.update(r.get("skipped", {}))
        mons.update(r.get("monitors", {}))
        evaluations += r.get("evaluations", 0)
        for s in r.get("samples", []):
            if len(samples) < 6:
                samples.append(s)
        violations += r.get("violations", [])
        known += r.get("known", [])
        for k, v in (r.get("notes") or {}).items():
            notes.setdefault(k, v)
        exhaustive = exhaustive and bool(r.get("exhaustive"))
    anchor = core.merge_anchor([r.get("anchor_lines") for r in results])

    # inconclusive rules: deciding monitors that never ran, required feature buckets empty
    if status == "ok":
        for m in getattr(mod, "MONITORS", []):
            if mons.get(m, 0) == 0:
                status = "inconclusive"
                reasons.append(f"deciding monitor {m!r} made no evaluation")
        for f in getattr(mod, "REQUIRED", []):
            if feats.get(f, 0) == 0:
                status = "inconclusive"
                reasons.append(f"required situation {f!r} never observed")
        if evaluations < 1 or len(digests) < 2:
            status = "inconclusive"
            reasons.append(f"too few cases: evaluations={evaluations} distinct={len(digests)}")

    evidence = {
        "property_id": pid,
        "tier": tier,
        "seed": seed,
        "level": mod.LEVEL,
        "coverage": {
            "evaluations": evaluations,
            "distinct_nontrivial": len(digests),
            "rule": mod.RULE,
            "samples": samples,
            "exhaustive": bool(exhaustive),
            "exhaustive_part": getattr(mod, "EXHAUSTIVE_PART", ""),
            "monitor_evaluations": dict(mons),
            "features": dict(sorted(feats.items())),
            "outcomes": dict(sorted(outs.items())),
            "skipped_out_of_domain": dict(sorted(skipped.items())),
            "anchor_lines": anchor,
            "known_findings_reported": known,
            "notes": notes,
            "shards": jobs,
            "verdict": "violated" if violations else ("held" if status == "ok" else status),
            "violation_keys": [v["key"] for v in violations],
        },
        "assumptions": list(getattr(mod, "ASSUMPTIONS", [])),
        "wall_s": round(wall, 2),
        "violations": len(violations),
    }
    os.makedirs(core.EVIDENCE, exist_ok=True)
    path = os.path.join(core.EVIDENCE, f"{pid}.json")
    tmp = path + ".tmp"
    with open(tmp, "w") as f:
        json.dump(evidence, f, indent=1, ensure_ascii=True, default=repr)
        f.write("\n")
    os.replace(tmp, path)

    top = ", ".join(f"{k}={v}" for k, v in list(sorted(feats.items()))[:12])
    print(f"{pid} {tier} seed={seed}: evaluations={evaluations} distinct_nontrivial={len(digests)} "
          f"monitors={dict(mons)} wall={wall:.1f}s")
    print(f"  outcomes={dict(outs)}")
    print(f"  features: {top}{' ...' if len(feats) > 12 else ''}")
    if violations:
        print(f"{pid}: VIOLATED ({len(violations)} distinct)")
        return 1
    if status == "harness-error":
        print(f"HARNESS-ERROR property={pid}\n" + "\n".join(reasons))
        return 3
    if status != "ok":
        print(f"INCONCLUSIVE property={pid} reason={' | '.join(reasons)}")
        return 2
    print(f"{pid}: held on everything explored")
    return 0


if __name__ == "__main__":
    sys.exit(main(sys.argv[1:]))
